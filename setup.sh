#!/bin/bash
# setup_cmd: install the contract libraries beside the repository's interpreter, offline.
set -e
cd "$(dirname "$0")"
if [ ! -d .deps/icontract ] || [ ! -d .deps/deal ]; then
  rm -rf .deps
  PIP_NO_INDEX=1 /venv/bin/pip install --quiet --no-index --find-links /opt/veriftools/wheels --target .deps icontract deal >/dev/null 2>&1 \
    || { echo "setup: could not install icontract/deal from the offline wheelhouse" >&2; exit 1; }
fi
mkdir -p .cache/tmp evidence replays
echo "setup ok"
