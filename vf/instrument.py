"""Workload monitors: the property monitors of C06-C11 and C16 attached to *real design runs* (scenario worker, thorough tier).

Each monitor re-uses the judge of its owning property module, so a contract that fires here is the same relation that the
property's own check asserts on generated inputs - but evaluated on the objects a real GHEManager.find_design() builds."""
from __future__ import annotations

import warnings

import numpy as np


class WorkloadMonitors:
    def __init__(self, sample_polygon_every=5):
        self.viol = {p: [] for p in ("C06", "C07", "C08", "C09", "C10", "C11", "C16")}
        self.hits = {p: 0 for p in self.viol}
        self._undo = []
        self._install_hybrid()
        self._install_simulate()
        self._install_radial()
        self._install_combine()
        self._install_polygon(sample_polygon_every)

    def _add(self, prop, mech, msg):
        if len(self.viol[prop]) < 5:
            self.viol[prop].append({"mechanism": mech, "message": msg[:300]})

    # ---- C06/C07/C08: every HybridLoad a design run constructs
    def _install_hybrid(self):
        import ghedesigner.ground_loads as gl
        from vf.props import hybrid_common as H

        orig = gl.HybridLoad.__init__
        mon = self

        def init(self_, raw_loads, bhe, radial_numerical, sim_params, *a_, **kw_):
            orig(self_, raw_loads, bhe, radial_numerical, sim_params, *a_, **kw_)
            years = kw_.get("years", a_[0] if a_ else None)
            if years is not None and len(years) > 1:
                return
            try:
                n_months = sim_params.end_month
                out, _ = H.observe(self_, list(raw_loads)[:8760], n_months, bhe, radial_numerical)
                # durations only for the first construction of a run (they do not depend on the field)
                if mon.hits["C07"] < 3:
                    H.check_durations(self_, list(raw_loads)[:8760], n_months, bhe, radial_numerical, out)
                for p in ("C06", "C07", "C08"):
                    mon.hits[p] += 1
                    for v in out[p][:2]:
                        mon._add(p, v["mechanism"], v["message"])
            except Exception as e:  # noqa: BLE001 - monitor trouble must not change the run
                mon._add("C06", "monitor-error", f"{type(e).__name__}: {e}")

        gl.HybridLoad.__init__ = init
        self._undo.append(lambda: setattr(gl.HybridLoad, "__init__", orig))

    # ---- C09: every call of _simulate_detailed
    def _install_simulate(self):
        from ghedesigner.ground_heat_exchangers import BaseGHE
        from vf.oracle.superposition import eft
        from vf.props.C09 import params_of

        orig = BaseGHE._simulate_detailed
        mon = self

        def wrapped(self_, q_dot, time_values, g, *a_, **kw_):
            r = orig(self_, q_dot, time_values, g, *a_, **kw_)
            try:
                t = np.asarray(time_values, dtype=float)
                if len(t) <= 600 and np.all(np.diff(np.concatenate(([0.0], t))) > 0) and mon.hits["C09"] % 3 == 0:
                    P = params_of(self_)
                    exp, _ = eft(np.asarray(q_dot, dtype=float), t, np.asarray(g.x), np.asarray(g.y), **P)
                    span = max(1.0, float(np.max(np.abs(exp - P["tg"]))))
                    err = float(np.max(np.abs(np.asarray(r[0], dtype=float) - exp))) / span
                    if err > 1e-9:
                        mon._add("C09", "design-run-simulation-differs-from-superposition", f"max |dT|/span = {err:.3g} over {len(t)} steps (N={P['N']}, H={P['H']})")
                mon.hits["C09"] += 1
            except Exception as e:  # noqa: BLE001
                mon._add("C09", "monitor-error", f"{type(e).__name__}: {e}")
            return r

        BaseGHE._simulate_detailed = wrapped
        self._undo.append(lambda: setattr(BaseGHE, "_simulate_detailed", orig))

    # ---- C10: every short-time solve
    def _install_radial(self):
        import ghedesigner.radial_numerical_borehole as rnb
        from vf.props import C10

        tap = C10.Tap()
        orig = rnb.RadialNumericalBH.calc_sts_g_functions
        mon = self

        def calc(self_, single_u_tube, *a_, **kw_):
            tap.reset()
            r = orig(self_, single_u_tube, *a_, **kw_)
            try:
                if tap.cells is not None and tap.nsteps > 0 and mon.hits["C10"] % 4 == 0:
                    v, _ = C10.judge_case(tap, self_, single_u_tube, False)
                    for x in v:
                        if x["mechanism"] != "far-field-boundary-leak":
                            mon._add("C10", x["mechanism"], x["message"])
                mon.hits["C10"] += 1
            except Exception as e:  # noqa: BLE001
                mon._add("C10", "monitor-error", f"{type(e).__name__}: {e}")
            return r

        rnb.RadialNumericalBH.calc_sts_g_functions = calc
        self._undo.append(lambda: (setattr(rnb.RadialNumericalBH, "calc_sts_g_functions", orig), tap.uninstall()))

    # ---- C11: every combination of short- and long-time curves
    def _install_combine(self):
        from vf.props import C11

        tap = C11.CombineTap()
        self._combine = tap
        self._undo.append(tap.uninstall)

    # ---- C16: sampled calls of point_polygon_check made by remove_cutout
    def _install_polygon(self, every):
        import ghedesigner.feature_recognition as fr
        from vf.oracle import polygon as O

        orig = fr.point_polygon_check
        mon = self
        state = {"n": 0}

        def checked(contour, point, *a_, **kw_):
            r = orig(contour, point, *a_, **kw_)
            on_edge_tolerance = kw_.get("on_edge_tolerance", a_[0] if a_ else 0.001)
            state["n"] += 1
            if state["n"] % every == 0:
                try:
                    exp = O.classify(contour, (float(point[0]), float(point[1])), on_edge_tolerance)
                    mon.hits["C16"] += 1
                    if exp is not None and exp != r:
                        mon._add("C16", "design-run-point-misclassified", f"point {tuple(point)}: got {r}, expected {exp}")
                except Exception as e:  # noqa: BLE001
                    mon._add("C16", "monitor-error", f"{type(e).__name__}: {e}")
            return r

        fr.point_polygon_check = checked
        self._undo.append(lambda: setattr(fr, "point_polygon_check", orig))

    def report(self):
        self.hits["C11"] = self._combine.hits
        for b in self._combine.bad[:3]:
            self._add("C11", b["mechanism"], b["message"])
        return {"hits": dict(self.hits), "violations": {p: v for p, v in self.viol.items() if v}}

    def uninstall(self):
        for u in reversed(self._undo):
            try:
                u()
            except Exception:  # noqa: BLE001
                pass
