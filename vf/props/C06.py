"""C06 - see vf/props/hybrid_common.py (shared workload and observation for the hybrid-load properties)."""
from vf.props import hybrid_common as H

PROP = "C06"


def run_shard(spec):
    return H.run_shard(spec)


def check(tier, seed):
    rep = H.run_check(PROP, tier, seed)
    rep.rule = RULE
    rep.assumptions = ASSUME
    return rep


def replay(w):
    return H.replay_case(PROP, w)


RULE = (
    "case = (8760-h profile from 12 seeded families x scale, horizon 1..360 months, real equivalent U-tube + radial model); "
    "every simulated month's integral of load x breakpoint difference between consecutive month-end breakpoints is compared "
    "with the calendar month's net hourly load (tolerance 1e-11 x max(1,|totals|,peak x hours)). "
    "non-trivial = case with a peak-retention month whose pulses differ from its average; distinct by (family, seed, horizon)."
)
ASSUME = ["non-leap calendar, years=[2019] as the API always passes", "month-end breakpoints located by exact float equality"]
