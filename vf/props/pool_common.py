"""Shared scenario pool for the design-run properties (C01, C02, C05b, C12, C19, C20): plan, execution with cache, outcome classes."""
from __future__ import annotations

import math

import numpy as np

from vf.common import rng
from vf.gen import config as GC
from vf.gen import loads as GL
from vf.gen import phys as GP
from vf.pool import run_pool

CLASSES = ["tiny", "small", "interior", "interior", "interior-cap", "large", "interior", "huge"]
FLAGS = [True, False, False, True, False, False, True, False]


def polygon_area(poly):
    n = len(poly)
    return abs(0.5 * sum(poly[i - 1][0] * poly[i][1] - poly[i][0] * poly[i - 1][1] for i in range(n)))


def candidate_range(geo):
    """(smallest count, largest count) of the candidate fields, estimated from the geometry."""
    m = geo["method"]
    if m == "NEARSQUARE":
        n = math.floor(geo["length"] / geo["b"]) + 1
        return 1, n * (n + 1)
    if m in ("RECTANGLE", "BIRECTANGLE", "BIZONEDRECTANGLE"):
        nx = math.floor(geo["length"] / geo["b_min"] + 1)
        ny = math.floor(geo["width"] / geo["b_min"] + 1)
        return 1, nx * ny
    if m == "BIRECTANGLECONSTRAINED":
        a = sum(polygon_area(p) for p in geo["property_boundary"]) - sum(polygon_area(p) for p in geo["no_go_boundaries"])
        return 1, max(4, int(a / geo["b_min"] ** 2))
    a = polygon_area(geo["property_boundary"]) - sum(polygon_area(p) for p in geo["no_go_boundaries"])
    return max(1, int(a / geo["max_spacing"] ** 2)), max(4, int(a / geo["min_spacing"] ** 2) + 4)


def scale_loads_for(cfg, klass, g):
    """Choose the load scale so that the required drilling lands in the wanted part of the candidate range (crude, by design)."""
    geo = cfg["geometric_constraints"]
    des = cfg["design"]
    n_min, n_max = candidate_range(geo)
    d_min = n_min * geo["min_height"]
    d_max = n_max * geo["max_height"]
    if klass == "tiny":
        target = d_min * float(g.uniform(0.02, 0.3))
    elif klass == "small":
        target = d_min * float(g.uniform(1.2, 6.0))
    elif klass.startswith("interior"):
        lo, hi = math.log(max(d_min * 4, d_max * 0.02)), math.log(d_max * 0.5)
        target = math.exp(float(g.uniform(lo, max(lo + 0.1, hi))))
    elif klass == "cap-binding":
        cap = cfg["design"]["max_boreholes"]
        target = cap * geo["max_height"] * float(g.uniform(3.0, 10.0))  # the crude capacity estimate below is conservative by ~2-3x
    elif klass == "cap-huge":
        target = d_max * float(g.uniform(3.0, 30.0))
    elif klass == "large":
        target = d_max * float(g.uniform(0.6, 0.95))
    else:
        target = d_max * float(g.uniform(3.0, 30.0))
    loads1 = GL.make_loads({**cfg["loads_desc"], "scale": 1.0})
    a = np.asarray(loads1)
    tg = cfg["soil"]["undisturbed_temp"]
    k = cfg["soil"]["conductivity"]
    peak_rej = float(max(0.0, -a.min()))
    peak_ext = float(max(0.0, a.max()))
    # W per metre that the allowed temperature swing supports (short-term response ~ g 10 + 2 pi k Rb ~ 2.5)
    G = 12.5
    cap_rej = 2 * math.pi * k * max(0.5, des["max_eft"] - tg) / G
    cap_ext = 2 * math.pi * k * max(0.5, tg - des["min_eft"]) / G
    need_per_unit = max(peak_rej / cap_rej, peak_ext / cap_ext, 1e-9)  # metres of drilling for scale 1
    return float(target / need_per_unit)


def make_cfg(g, method, pipe, flow_type, klass, flag, cap_bh):
    cfg = GC.draw_config(g, method=method, pipe=pipe, flow_type=flow_type, cap_bh=cap_bh)
    cfg["design"]["continue_if_design_unmet"] = bool(flag)
    if not flag:
        cfg["design"].pop("continue_if_design_unmet")
    if klass == "interior-cap" and method != "ROWWISE":
        n_min, n_max = candidate_range(cfg["geometric_constraints"])
        cfg["design"]["max_boreholes"] = int(max(2, g.integers(max(3, n_max // 6), max(4, n_max // 2) + 1)))
    if klass in ("cap-binding", "cap-huge"):
        # a cap well inside the candidate range and loads beyond what the capped fields can carry: the cap decides the outcome
        n_min, n_max = candidate_range(cfg["geometric_constraints"])
        if g.random() < 0.5:
            cfg["design"]["max_boreholes"] = int(max(3, g.integers(max(3, n_max // 5), max(4, n_max // 2) + 1)))
        else:
            # a cap above every field of the sparsest nested list but below the densest fields
            cfg["design"]["max_boreholes"] = int(max(3, round(n_max * float(g.uniform(0.55, 0.95)))))
    cfg["loads_desc"]["scale"] = scale_loads_for(cfg, klass, g)
    cfg["_class"] = klass
    return cfg


def plan(tier, seed):
    g = rng(seed, "pool", 0)
    cfgs = []
    n_per_method = {"quick": 8, "thorough": 104}[tier]
    cap_bh = {"quick": 100, "thorough": 256}[tier]
    for mi, method in enumerate(GC.METHODS):
        n = n_per_method if method != "ROWWISE" else {"quick": 8, "thorough": 48}[tier]
        for i in range(n):
            klass = CLASSES[(i + mi) % 8]
            flag = FLAGS[(i + 3 * mi) % 8] if i < 8 else bool(g.random() < 0.5)
            pipe = GP.PIPES[(i + mi) % 4]
            flow_type = ["BOREHOLE", "SYSTEM"][(i // 4 + mi) % 2]
            cfgs.append(make_cfg(g, method, pipe, flow_type, klass, flag, cap_bh if method != "ROWWISE" else 100))
    # make sure both error branches exist for the plain 1-D searches in every tier
    for method, klass in (("NEARSQUARE", "tiny"), ("NEARSQUARE", "huge"), ("RECTANGLE", "tiny"), ("RECTANGLE", "huge"), ("BIRECTANGLE", "huge"), ("BIRECTANGLE", "tiny")):
        cfgs.append(make_cfg(g, method, "SINGLEUTUBE", "BOREHOLE", klass, False, 64))
        cfgs.append(make_cfg(g, method, "SINGLEUTUBE", "SYSTEM", klass, True, 64))
    # cap-binding runs of every capped method (flag both ways) and small-lot bi-rectangle runs with small loads (the outer search
    # settles on the first nested list): situations the rotation above reaches only by chance
    for method in ("NEARSQUARE", "RECTANGLE", "BIRECTANGLE", "BIZONEDRECTANGLE", "BIRECTANGLECONSTRAINED"):
        for flag in (True, False):
            for _rep in range({"quick": 2, "thorough": 8}[tier]):
                cfgs.append(make_cfg(g, method, GP.PIPES[len(cfgs) % 4], "BOREHOLE", "cap-binding", flag, 64))
        for _rep in range({"quick": 2, "thorough": 6}[tier]):
            cfgs.append(make_cfg(g, method, GP.PIPES[len(cfgs) % 4], "BOREHOLE", "cap-huge", True, 64))
    for k in range({"quick": 8, "thorough": 48}[tier]):
        cfgs.append(make_cfg(g, "BIRECTANGLE", GP.PIPES[k % 4], ["BOREHOLE", "SYSTEM"][k % 2], ["small", "interior", "small", "interior"][k % 4], k % 3 == 0, 36))
    # boundary values of the temperature limits: an antifreeze loop with the lower limit at exactly 0 degC (float and int) or below it, and
    # extraction-dominated loads so that the lower limit is the governing one
    for k in range({"quick": 6, "thorough": 24}[tier]):
        method = ["NEARSQUARE", "RECTANGLE", "BIRECTANGLE"][k % 3]
        cfg = make_cfg(g, method, GP.PIPES[k % 4], ["BOREHOLE", "SYSTEM"][k % 2], ["interior", "small", "large"][k % 3], k % 4 == 3, 49)
        cfg["fluid"] = {"fluid_name": ["PROPYLENEGLYCOL", "ETHYLENEGLYCOL", "METHYLALCOHOL"][k % 3], "concentration_percent": float(round(g.uniform(20, 35), 1)), "temperature": 20.0}
        cfg["soil"]["undisturbed_temp"] = float(round(g.uniform(7.0, 12.0), 2))
        cfg["design"]["min_eft"] = [0.0, 0, -2.0][k % 3]
        if k % 2 == 0:
            cfg["design"]["max_eft"] = float(round(cfg["soil"]["undisturbed_temp"] + g.uniform(14, 24), 1))
            cfg["loads_desc"]["family"] = ["heating_only", "sinus", "atlanta_shift"][k % 3]
        else:
            # both limits in play: the upper limit about as far from the ground temperature as the lower one, mixed loads - a design
            # sized for one limit alone then breaks the other
            margin = cfg["soil"]["undisturbed_temp"] - float(cfg["design"]["min_eft"])
            cfg["design"]["max_eft"] = float(round(cfg["soil"]["undisturbed_temp"] + margin * g.uniform(0.9, 1.3), 1))
            cfg["loads_desc"]["family"] = "sinus"
            cfg["loads_desc"]["bias"] = float(round(g.uniform(0.1, 0.35), 2))  # extraction-dominated with summer rejection: the lower limit governs
        cfg["loads_desc"]["scale"] = scale_loads_for(cfg, cfg["_class"], g)
        if k % 2 == 1:
            cfg["loads_desc"]["form"] = "int"  # whole watts as Python ints (JSON integers)
        cfg["_class"] = "limit-boundary"
        cfgs.append(cfg)
    # whole-number inputs given as ints (what a hand-written JSON input looks like): lengths, spacings, heights, limits, flow
    for k in range({"quick": 5, "thorough": 20}[tier]):
      method = ["NEARSQUARE", "RECTANGLE", "BIRECTANGLE", "BIZONEDRECTANGLE", "RECTANGLE"][k % 5]
      for _attempt in range(12):
        cfg = make_cfg(g, method, GP.PIPES[k % 4], ["BOREHOLE", "SYSTEM"][k % 2], ["interior", "small", "large", "interior", "tiny"][k % 5], k % 2 == 0, 49)
        geo = cfg["geometric_constraints"]
        for key in ("length", "width", "b", "b_min", "b_max", "b_max_x", "b_max_y", "max_height", "min_height"):
            if key in geo:
                geo[key] = int(round(geo[key] + (0.5 if key.startswith("b_max") else 0.0)))
        if "b_min" in geo:
            for key in ("b_max", "b_max_x", "b_max_y"):
                if key in geo:
                    geo[key] = max(geo[key], geo["b_min"] + 2)
        geo["max_height"] = max(geo["max_height"], geo["min_height"] + 20)
        cfg["design"]["max_eft"] = int(round(cfg["design"]["max_eft"])) + 1
        cfg["design"]["min_eft"] = int(round(cfg["design"]["min_eft"])) - 1
        if cfg["design"]["flow_type"] == "SYSTEM":
            cfg["design"]["flow_rate"] = int(max(1, round(cfg["design"]["flow_rate"])))
        cfg["soil"]["undisturbed_temp"] = int(round(cfg["soil"]["undisturbed_temp"]))
        cfg["grout"]["rho_cp"] = int(cfg["grout"]["rho_cp"])
        cfg["soil"]["rho_cp"] = int(cfg["soil"]["rho_cp"])
        cfg["loads_desc"]["scale"] = scale_loads_for(cfg, cfg["_class"], g)
        cfg["_class"] = "int-inputs"
        # rounding the spacings to whole metres can leave a window that holds no integer row count (the generators then raise by
        # design): keep only configurations whose candidate domain can be built
        try:
            import contextlib
            import io
            import warnings

            with warnings.catch_warnings(), contextlib.redirect_stdout(io.StringIO()):
                warnings.simplefilter("ignore")
                GC.build_manager(cfg, loads=[0.0] * 8760)
        except ValueError:
            continue
        cfgs.append(cfg)
        break
    return cfgs


def records(tier, seed, timeout=7200):
    cfgs = plan(tier, seed)
    opts = {"monitors": True} if tier == "thorough" else None
    specs = [{"cfgs": [c], "opts": opts} for c in cfgs]
    results = run_pool("vf.scenario", specs, timeout=timeout)
    recs = []
    problems = []
    for r in results:
        if "_harness_error" in r:
            problems.append(r["_harness_error"][:300])
            continue
        for rec in r["records"]:
            if "harness_error" in rec:
                problems.append(rec["harness_error"][:300] + " | " + rec.get("harness_tb", "")[-300:])
            else:
                recs.append(rec)
    return recs, problems


def method_of(rec):
    return rec["cfg"]["geometric_constraints"]["method"]


def escaped(rec):
    f = rec.get("stdout_flags", {})
    return f.get("smallest", 0) + f.get("largest", 0) > 0


def outcome_class(rec):
    if rec["outcome"] == "ValueError":
        return "ValueError"
    if rec["outcome"] == "exception":
        return "exception:" + rec.get("exc_type", "?")
    f = rec["final"]
    fl = rec.get("stdout_flags", {})
    if fl.get("smallest", 0) and not fl.get("largest", 0):
        esc = "unmet-small"
    elif fl.get("largest", 0) and not fl.get("smallest", 0):
        esc = "unmet-large"
    elif fl.get("largest", 0) and fl.get("smallest", 0):
        esc = "unmet-mixed"
    else:
        esc = None
    if esc:
        return esc
    if abs(f["H"] - f["hmin"]) < 1e-9:
        return "clamped-min"
    if abs(f["H"] - f["hmax"]) < 1e-9:
        return "clamped-max"
    return "bracketed"


def brief(rec):
    c = rec["cfg"]
    out = {
        "method": method_of(rec),
        "pipe": c["pipe"]["arrangement"],
        "flow": [c["design"]["flow_rate"], c["design"]["flow_type"]],
        "months": c["simulation"]["num_months"],
        "loads": c["loads_desc"],
        "class": c.get("_class"),
        "outcome": outcome_class(rec),
    }
    if rec["outcome"] == "design":
        out.update(nbh=rec["final"]["nbh"], H=rec["final"]["H"], window=[rec["final"]["hmin"], rec["final"]["hmax"]], cap=rec["final"]["cap"], flag=rec["final"]["flag"])
    else:
        out.update(msg=rec.get("exc_msg"))
    return out


def add_workload_monitor_results(rep, prop, tier, seed):
    """Thorough tier: the owning property's monitor also ran inside every real design run of the shared pool."""
    if tier != "thorough":
        return
    recs, problems = records(tier, seed)
    hits = 0
    runs = 0
    for rec in recs:
        wm = rec.get("workload_monitors")
        if not wm:
            continue
        runs += 1
        hits += wm["hits"].get(prop, 0)
        for v in wm["violations"].get(prop, []):
            rep.violate("design-run:" + v["mechanism"], f"{method_of(rec)}: {v['message']}", {"scenario": rec["cfg"]})
    rep.extra["design_runs_under_this_monitor"] = runs
    rep.extra["monitor_evaluations_inside_design_runs"] = hits
    rep.evaluations += hits
