"""C01 - a design returned without the 'continue if unmet' escape keeps the entering fluid temperature within the limits.

Events : scenario records of full GHEManager.find_design() runs (vf.scenario): outcome, escape messages, returned field and height,
         in-place re-simulation on a deep copy, independent superposition of the same hybrid sequence.
Oracle : own excess max(max-Tmax, Tmin-min) from the re-simulated temperatures <= 1e-3 K, cross-checked by the superposition oracle.
"""
from __future__ import annotations

from vf.common import Report
from vf.props import pool_common as PC

PROP = "C01"
TOL = 1e-3


def run_shard(spec):
    if spec.get("part") == "scripted-physics":
        from vf.props import scripted as SC

        return SC.run_batch(spec)
    from vf.scenario import run_shard as rs

    return rs(spec)


def scripted_part(rep, tier, seed):
    """The real search classes on scripted physics (vf/props/scripted.py): this property's clauses with the full table known."""
    from vf.pool import run_pool as _rp

    specs = [{"part": "scripted-physics", "seed": seed, "shard": s, "nshards": 16, "n1d": {"quick": 24, "thorough": 48}[tier],
              "nnested": {"quick": 150, "thorough": 1500}[tier]} for s in range(16)]
    runs = 0
    stats = {}
    for r in _rp("vf.props.%s" % PROP, specs, timeout=3600):
        if "_harness_error" in r:
            rep.inconclusive.append("scripted shard failed: " + r["_harness_error"][:300])
            continue
        runs += r["runs"]
        for k, v in r["stats"].items():
            stats[k] = stats.get(k, 0) + v
        for v in r["viol"][PROP]:
            rep.violate(v["mechanism"], v["message"], {"case": v["case"]})
    rep.evaluations += runs
    rep.extra["scripted_physics_runs"] = runs
    rep.extra["scripted_physics_stats"] = stats
    if runs == 0:
        rep.inconclusive.append("scripted-physics runs did not execute")
    return stats


def check(tier, seed):
    recs, problems = PC.records(tier, seed)
    rep = Report(PROP)
    _sstats = scripted_part(rep, tier, seed)
    rep.rule = (
        "scenario = full design run: 6 design methods x 4 pipe types x 2 flow types x 12 load families x generated media/borehole/limits/"
        "height windows/horizons (12..360 months incl. non-multiples of 12), load magnitude aimed below, inside and beyond the land's capacity. "
        "judged = run that returned a design with the continue flag off, or on without any escape message. non-trivial = judged run whose "
        "search evaluated candidates of both signs and whose excess at the returned height is non-zero; distinct by scenario inputs."
    )
    for p in problems:
        rep.inconclusive.append("scenario failed in the harness: " + p)
    classes = {}
    judged = 0
    for rec in recs:
        rep.evaluations += 1
        oc = PC.outcome_class(rec)
        classes[oc] = classes.get(oc, 0) + 1
        if rec["outcome"] != "design":
            continue
        f = rec["final"]
        if f["flag"] and PC.escaped(rec):
            rep.count("escape_ambiguous_not_judged")
            continue
        judged += 1
        rs = rec["resim"]
        rep.worst("worst_excess_at_returned_height_K", rs["excess"])
        if rs.get("oracle_err") is not None:
            rep.worst("worst_simulate_vs_superposition_K", rs["oracle_err"])
        wit = {"scenario": rec["cfg"], "final": {k: f[k] for k in ("nbh", "H", "hmin", "hmax", "tmax", "tmin", "cap", "flag")}, "resim": rs}
        # a sign change within +-1 mm cannot come from a continuous objective (slopes are ~0.01-0.3 K/m): it is a jump, and the returned
        # excess lies between the two sides of it
        jump = rs.get("excess_1mm_above") is not None and rs["excess_1mm_above"] < 0 < rs["excess_1mm_below"] and rs["excess"] <= rs["excess_1mm_below"] + 1e-9
        if rs["excess"] > TOL and jump:
            rep.violate("root-on-a-jump-of-the-sizing-objective",
                        f"{PC.method_of(rec)} {f['nbh']} bh: excess {rs['excess']:.3g} K at H={f['H']:.5f} m, {rs['excess_1mm_below']:.3g} K 1 mm below and {rs['excess_1mm_above']:.3g} K 1 mm above", wit)
        elif rs["excess"] > TOL:
            rep.violate(f"returned-design-infeasible:{PC.method_of(rec)}",
                        f"{PC.method_of(rec)} {f['nbh']} bh at H={f['H']:.3f} m: re-simulated EFT [{rs['min']:.4f},{rs['max']:.4f}] vs limits [{f['tmin']},{f['tmax']}] (excess {rs['excess']:.4g} K)", wit)
        if rs.get("oracle_err") is not None and rs["oracle_err"] > 1e-6:
            rep.violate("simulate-disagrees-with-superposition", f"max |dT| = {rs['oracle_err']:.3g} K between simulate() and the superposition oracle", wit)
        elif rs.get("oracle_excess") is not None and rs["oracle_excess"] > TOL + 1e-6 and not jump:
            rep.violate(f"returned-design-infeasible-by-oracle:{PC.method_of(rec)}", f"oracle excess {rs['oracle_excess']:.4g} K", wit)
        signs = {e[2] > 0 for s in rec["searches"] for e in s["evals"]} | {e[2] > 0 for e in rec.get("rowwise_evals", [])}
        if len(signs) == 2 and rs["excess"] != 0.0:
            rep.nontrivial([PC.method_of(rec), rec["key"]])
        rep.sample(PC.brief(rec), cap=4)
    rep.extra["outcome_classes"] = classes
    rep.extra["judged_runs"] = judged
    methods = {}
    for rec in recs:
        if rec["outcome"] == "design" and not (rec["final"]["flag"] and PC.escaped(rec)):
            methods[PC.method_of(rec)] = methods.get(PC.method_of(rec), 0) + 1
    rep.extra["judged_by_method"] = methods
    if judged == 0:
        rep.inconclusive.append("no run was judged")
    rep.assumptions = ["in-place re-simulation (the tool does not rebuild the hybrid loads during sizing; a fresh object may differ legitimately)",
                       "pygfunction's long-time g-function and Rb* are trusted inputs of both the tool and the oracle"]
    return rep


def replay(w):
    from vf.scenario import run_scenario

    rec = run_scenario(w["witness"]["scenario"])
    rep = Report(PROP)
    rep.evaluations = 1
    rep.nontrivial_count = 2
    rep.rule = "replay of one scenario"
    rep.sample(PC.brief(rec))
    if rec["outcome"] == "design" and not (rec["final"]["flag"] and PC.escaped(rec)) and rec["resim"]["excess"] > TOL:
        rep.violate(w["mechanism"], f"replayed: excess {rec['resim']['excess']}", w["witness"])
    return rep
