"""C07 - see vf/props/hybrid_common.py (shared workload and observation for the hybrid-load properties)."""
from vf.props import hybrid_common as H

PROP = "C07"


def run_shard(spec):
    return H.run_shard(spec)


def check(tier, seed):
    rep = H.run_check(PROP, tier, seed)
    rep.rule = RULE
    rep.assumptions = ASSUME
    return rep


def replay(w):
    return H.replay_case(PROP, w)


RULE = (
    "case as C06 with a fresh borehole (pipe type, H 20-400 m, soil/grout/fluid, flow laminar..turbulent) every 2 profiles; "
    "per retention month and direction: exactly one segment carries +peak rejection / -peak extraction, its length equals the "
    "reported duration, 0<duration<=48, it is centred on the noon label (+12..13 h) of a day attaining the peak (abutting when "
    "both peaks share the day), no pulse for a direction without load, middle months are one average segment, and the reported "
    "duration equals the harness's own Cullin-Spitler recomputation (own interpolation of the 30-point short-time curve, own "
    "two-day window) within 1e-6 relative. non-trivial = case with a month holding both pulses and durations > 1e-3 h."
)
ASSUME = [
    "when the two-day window holds a load larger than the month's peak by >= 0.1 kW either scaling is accepted",
    "when the nominal response is <= 0 any duration in (0,1e-3] h is accepted",
    "pulse centre accepted at +12..+13 h of the peak day (the tool's 1-based hour labels put noon at +13 h)",
]
