"""Workload + observation for the hybrid-load properties C06, C07, C08 (real HybridLoad constructor under a monitor)."""
from __future__ import annotations

import math
import warnings

import numpy as np

from vf.common import Report, rng
from vf.gen import loads as GL
from vf.gen import phys as GP
from vf.oracle import hybrid as OH
from vf.pool import run_pool

NSHARDS = 16
HITS = {"invariant": 0}


def draw_case(g, idx):
    fams = GL.FAMILIES + GL.HYBRID_EXTRA
    fam = fams[idx % len(fams)] if g.random() < 0.7 else str(g.choice(fams))
    desc = {"family": fam, "seed": int(g.integers(0, 2**31 - 1)), "scale": float(10 ** g.uniform(-1.5, 0.7))}
    if g.random() < 0.25:
        desc["form"] = str(g.choice(["int", "int", "np_int", "np_float"]))
    r = g.random()
    if r < 0.25:
        n_months = int(g.integers(1, 25))
    elif r < 0.5:
        n_months = int(g.choice([12, 24, 36, 120, 240, 360]))
    else:
        n_months = int(g.integers(1, 361))
    return {"loads": desc, "n_months": n_months}


def draw_borehole(g):
    arr = str(g.choice(GP.PIPES))
    ph = GP.draw_phys(g, arr)
    return {"phys": ph, "H": float(round(g.uniform(20, 400), 1)), "flow": GP.draw_flow(g, arr)}


def build_sts(bh):
    """Real equivalent single U-tube + real RadialNumericalBH, as BaseGHE.__init__ builds them."""
    from ghedesigner.radial_numerical_borehole import RadialNumericalBH

    bhe = GP.make_bhe(bh["phys"], bh["H"], bh["flow"] / 1000.0 * 1000.0)
    bhe_eq = bhe.to_single()
    rn = RadialNumericalBH(bhe_eq)
    rn.calc_sts_g_functions(bhe_eq)
    return bhe_eq, rn


def build_hybrid(loads, n_months, bhe_eq, rn):
    from ghedesigner.ground_loads import HybridLoad
    from ghedesigner.simulation import SimulationParameters

    sp = SimulationParameters(1, n_months, 35.0, 5.0, 200.0, 20.0)
    with warnings.catch_warnings():
        warnings.simplefilter("ignore")
        return HybridLoad(loads, bhe_eq, rn, sp, years=[2019])


def observe(hl, loads, n_months, bhe_eq, rn, want=("C06", "C07", "C08")):
    """All judgments for one HybridLoad.  Returns {prop: [violation dicts]}, stats."""
    out = {p: [] for p in want}
    stats = {}
    hour = np.asarray(hl.hour, dtype=float)
    load = np.asarray(hl.load, dtype=float)
    ms = OH.expected_months(loads)
    idx, ends = OH.split_months(hour, n_months)

    def bad(prop, mech, msg, **kw):
        if prop in out:
            out[prop].append({"mechanism": mech, "message": msg, **kw})

    # ---- C08 structure
    if not (len(hour) >= 3 and hour[0] == 0 and hour[1] == 0):
        bad("C08", "axis-does-not-start-at-zero", f"hour[0:2]={hour[:2].tolist()}")
    if idx is None:
        bad("C08", "month-end-not-a-breakpoint", "a calendar month end is missing from the breakpoints")
        bad("C06", "month-end-not-a-breakpoint", "cannot integrate per month: month end missing")
        bad("C07", "month-end-not-a-breakpoint", "cannot delimit months")
        return out, stats
    if hour[-1] != ends[-1] or idx[-1] != len(hour) - 1:
        bad("C08", "axis-does-not-end-at-horizon", f"last breakpoint {hour[-1]} vs horizon end {ends[-1]}")
    # replication of monthly data
    for name in ("monthly_cl", "monthly_hl", "monthly_peak_cl", "monthly_peak_hl"):
        arr = getattr(hl, name)
        for i in range(13, n_months + 1):
            mi = (i - 1) % 12 + 1
            if i >= len(arr) or arr[i] != arr[mi]:
                bad("C08", "month-plus-12-does-not-repeat", f"{name}[{i}] differs from month {mi}")
                break
    # ---- per month
    nontrivial06 = False
    nontrivial07 = False
    windows_ok_all = True
    prev = 1
    worst_rel = 0.0
    for m in range(1, n_months + 1):
        k_end = idx[m - 1]
        seg_loads = load[prev + 1 : k_end + 1]
        seg_lens = hour[prev + 1 : k_end + 1] - hour[prev:k_end]
        seg_start = hour[prev:k_end]
        seg_end = hour[prev + 1 : k_end + 1]
        cm = ms[(m - 1) % 12]
        m_start = ends[m - 2] if m > 1 else 0
        m_end = ends[m - 1]
        # C06 energy
        integral = float(np.dot(seg_loads, seg_lens))
        expect = cm["net_kwh"]
        tol = 1e-11 * max(1.0, abs(cm["rej_total"]), abs(cm["ext_total"]), max(cm["rej_peak"], cm["ext_peak"]) * cm["hours"])
        err = abs(integral - expect)
        worst_rel = max(worst_rel, err / max(1.0, abs(expect)))
        ret = OH.retained(m, n_months)
        if err > tol:
            only_h = cm["rej_peak"] == 0 and cm["ext_peak"] > 0
            mech = "month-energy-not-conserved"
            if ret and only_h and 0 in cm["ext_peak_days"] and hl.monthly_peak_hl_day[m] == 0:
                mech = "heating-only-month-peak-on-day-1-missing-average-segment"
            bad(
                "C06",
                mech,
                f"month {m}: integral {integral:.9g} kWh vs net load {expect:.9g} kWh (|err| {err:.3g} > tol {tol:.3g})",
                month=m,
                integral=integral,
                expected=expect,
            )
        # C07 pulses
        want_pulses = []
        if ret:
            if cm["rej_peak"] > 0:
                want_pulses.append(("rej", +cm["rej_peak"], hl.monthly_peak_cl_duration[m], cm["rej_peak_days"], hl.monthly_peak_cl_day[m]))
            if cm["ext_peak"] > 0:
                want_pulses.append(("ext", -cm["ext_peak"], hl.monthly_peak_hl_duration[m], cm["ext_peak_days"], hl.monthly_peak_hl_day[m]))
        month_rate_candidates = set(seg_loads.tolist())
        if not ret:
            if len(seg_loads) != 1:
                bad("C07", "middle-month-not-a-single-average", f"month {m} (no peak retention) has {len(seg_loads)} segments")
        else:
            # expected number of segments: 1 (rest) + 2 per pulse, same-day case shares one average
            pass
        same_day = len(want_pulses) == 2 and hl.monthly_peak_cl_day[m] == hl.monthly_peak_hl_day[m]
        noon_windows = []
        for kind, val, dur, days, rep_day in want_pulses:
            if not (0 < dur <= 48.0):
                bad("C07", "duration-out-of-bounds", f"month {m} {kind}: duration {dur}", month=m)
            if rep_day not in days:
                bad("C07", "reported-peak-day-does-not-attain-peak", f"month {m} {kind}: day {rep_day} not in {days}", month=m)
            hits = [j for j in range(len(seg_loads)) if seg_loads[j] == val]
            avg_equals_peak = False
            others = [x for x in seg_loads.tolist() if x != val]
            if not others:
                avg_equals_peak = True  # constant month: the average equals the peak, pulses indistinguishable
            if avg_equals_peak:
                continue
            if len(hits) != 1:
                mech = "peak-pulse-missing" if not hits else "peak-pulse-duplicated"
                bad("C07", mech, f"month {m} {kind}: {len(hits)} segments carry the peak value {val}", month=m)
                continue
            j = hits[0]
            plen = float(seg_lens[j])
            if abs(plen - dur) > 1e-6 * max(1.0, dur):
                mech = "pulse-length-differs-from-duration"
                if kind == "ext" and cm["rej_peak"] == 0 and hl.monthly_peak_hl_day[m] == 0 and j == 0:
                    mech = "heating-only-month-peak-on-day-1-missing-average-segment"
                bad("C07", mech, f"month {m} {kind}: pulse lasts {plen} h, reported duration {dur} h", month=m)
            # placement
            day0 = m_start + 24 * rep_day
            if same_day:
                instant = float(seg_end[j]) if kind == "rej" else float(seg_start[j])
                off = instant - day0
                if not (12.0 - 1e-9 <= off <= 13.0 + 1e-9):
                    bad("C07", "same-day-pulses-do-not-abut-noon", f"month {m} {kind}: abutting instant at +{off} h of the peak day", month=m)
                noon_windows.append((float(seg_start[j]), float(seg_end[j])))
            else:
                centre = 0.5 * (float(seg_start[j]) + float(seg_end[j]))
                off = centre - day0
                clamped = float(seg_start[j]) <= 1e-6 + 1e-12 and m == 1  # the tool clamps a start before hour 0
                if not (12.0 - 1e-9 <= off <= 13.0 + 1e-9) and not clamped:
                    bad("C07", "pulse-not-centred-on-noon-of-peak-day", f"month {m} {kind}: centre at +{off} h of day {rep_day}", month=m)
                noon_windows.append((float(seg_start[j]), float(seg_end[j])))
            if dur > 1e-3:
                nontrivial07 = nontrivial07 or len(want_pulses) == 2
        # a direction without load gets no pulse
        if ret:
            if cm["rej_peak"] == 0 and any(x > 0 and x not in (cm["ext_peak"],) for x in []):
                pass
            # segments whose value is neither a required pulse nor the (single) average value
            vals = [x for x in seg_loads.tolist()]
            pulse_vals = {v for _, v, _, _, _ in want_pulses}
            rest = [x for x in vals if x not in pulse_vals]
            if len(set(rest)) > 1:
                bad("C07", "unexpected-extra-pulse", f"month {m}: segments {sorted(set(rest))} besides the required pulses", month=m)
        # C06 non-trivial: a retained month whose peak differs from its average
        if ret and want_pulses and len(set(seg_loads.tolist())) > 1:
            nontrivial06 = True
        # C08 monotonicity precondition from *reported* days and durations
        if ret and want_pulses:
            wins = []
            if same_day:
                noon = m_start + 1 + 24 * hl.monthly_peak_cl_day[m] + 12
                wins = [(noon - hl.monthly_peak_cl_duration[m], noon), (noon, noon + hl.monthly_peak_hl_duration[m])]
            else:
                for kind, val, dur, days, rep_day in want_pulses:
                    c = m_start + 1 + 24 * rep_day + 12
                    wins.append((c - dur / 2, c + dur / 2))
            wins.sort()
            ok = wins[0][0] > m_start and wins[-1][1] < m_end and all(0 < d <= 48.0 for _, _, d, _, _ in want_pulses)
            for a, b in zip(wins, wins[1:]):
                if a[1] > b[0] or (a[1] == b[0] and not same_day):
                    ok = False
            windows_ok_all = windows_ok_all and ok
        prev = k_end
    if windows_ok_all:
        d = np.diff(hour[1:])
        if not np.all(d > 0):
            k = int(np.argmin(d))
            bad("C08", "breakpoints-not-strictly-increasing", f"hour[{k + 1}]={hour[k + 1]} -> hour[{k + 2}]={hour[k + 2]} although no reported window overlaps")
    stats.update(
        nontrivial06=nontrivial06,
        nontrivial07=nontrivial07,
        nontrivial08=(n_months >= 13 or n_months % 12 != 0),
        windows_ok=windows_ok_all,
        worst_rel_energy_err=worst_rel,
        segments=int(len(hour)),
    )
    # total energy over the horizon
    total = float(np.dot(load[2:], np.diff(hour[1:])))
    exp_total = sum(ms[(m - 1) % 12]["net_kwh"] for m in range(1, n_months + 1))
    stats["total_err"] = abs(total - exp_total)
    return out, stats


def check_durations(hl, loads, n_months, bhe_eq, rn, out):
    """C07 duration clause: reported durations equal the harness's own Cullin-Spitler recomputation."""
    ms = OH.expected_months(loads)
    rej = [(-x) / 1000.0 if x < 0.0 else 0.0 for x in loads]
    ext = [x / 1000.0 if x >= 0.0 else 0.0 for x in loads]
    k_soil = bhe_eq.soil.k
    alpha = bhe_eq.soil.k / bhe_eq.soil.rhoCp
    ts = bhe_eq.b.H ** 2 / (9.0 * alpha)
    rb = bhe_eq.calc_effective_borehole_resistance()
    lntts = np.asarray(rn.lntts, dtype=float)
    gv = np.asarray(rn.g, dtype=float)
    worst = 0.0
    n = 0
    degenerate = [0]
    for m in range(1, min(12, n_months) + 1):
        cm = ms[m - 1]
        for kind, series, peak, avg, dur, rep_day in (
            ("rej", rej, cm["rej_peak"], cm["rej_total"] / cm["hours"], hl.monthly_peak_cl_duration[m], hl.monthly_peak_cl_day[m]),
            ("ext", ext, cm["ext_peak"], cm["ext_total"] / cm["hours"], hl.monthly_peak_hl_duration[m], hl.monthly_peak_hl_day[m]),
        ):
            if peak <= 0:
                continue
            window = OH.two_day_window(series, m - 1, rep_day)
            cands, nmax = OH.duration_candidates(window, peak, avg, lntts, gv, ts, k_soil, rb)
            n += 1
            ok = False
            best = None
            for c in cands:
                if c is None:
                    if 0 < dur <= 1e-3:
                        ok = True
                elif not (0 < c <= 48.0):
                    ok = True  # the defining time does not exist inside the two-day window: only the bounds clause applies
                    degenerate[0] += 1
                else:
                    e = abs(c - dur)
                    best = e if best is None else min(best, e)
                    if e <= 1e-6 * max(1.0, abs(c)):
                        ok = True
            if best is not None and ok:
                worst = max(worst, best)
            if not ok:
                out["C07"].append(
                    {
                        "mechanism": "duration-differs-from-cullin-spitler",
                        "message": f"month {m} {kind}: reported {dur} h, harness recomputation {cands} h",
                        "month": m,
                    }
                )
    return n, worst


def run_shard(spec):
    """spec: {prop, seed, shard, n, per_borehole}"""
    g = rng(spec["seed"], "hybrid", spec["shard"])
    want = tuple(spec["want"])
    res = {"cases": 0, "viol": [], "nontrivial": [], "dur_checked": 0, "worst_dur_err": 0.0, "worst_energy_rel": 0.0,
           "families": {}, "samples": [], "horizons": [], "windows_ok": 0}
    bh = None
    n_bh = 0
    for i in range(spec["n"]):
        if bh is None or i % spec["per_borehole"] == 0:
            n_bh += 1
            if bh is not None and n_bh % 3 == 0:
                # a sibling of the previous borehole in the same process: same height, ground, geometry and conductivities (hence the same
                # time scale and borehole resistance) but other volumetric heat capacities of grout and pipe - the short-time response, and
                # with it every peak duration, is another one
                import copy as _copy

                bh = _copy.deepcopy(bh)
                bh["phys"]["grout"]["rho_cp"] = float(round(bh["phys"]["grout"]["rho_cp"] * float(g.choice([0.35, 0.5, 1.8, 2.5])), 0))
                bh["phys"]["pipe"]["rho_cp"] = float(round(bh["phys"]["pipe"]["rho_cp"] * float(g.choice([0.5, 1.0, 2.0])), 0))
                bh["sibling_of_previous"] = True
                res["sibling_boreholes"] = res.get("sibling_boreholes", 0) + 1
            else:
                bh = draw_borehole(g)
            try:
                bhe_eq, rn = build_sts(bh)
            except Exception as e:  # generator produced an unusable borehole: count, do not judge
                res.setdefault("skipped_borehole", 0)
                res["skipped_borehole"] += 1
                bh = None
                continue
        case = draw_case(g, spec["shard"] * 1000 + i)
        loads = GL.make_loads(case["loads"])
        try:
            hl = build_hybrid(loads, case["n_months"], bhe_eq, rn)
        except Exception as e:
            res["viol"].append({"prop": "*", "mechanism": f"constructor-raised:{type(e).__name__}", "message": str(e)[:200],
                                "case": case, "borehole": bh})
            continue
        out, stats = observe(hl, loads, case["n_months"], bhe_eq, rn, want=want)
        if "C07" in want:
            nchk, worst = check_durations(hl, loads, case["n_months"], bhe_eq, rn, out)
            res["dur_checked"] += nchk
            res["worst_dur_err"] = max(res["worst_dur_err"], worst)
        res["cases"] += 1
        res["worst_energy_rel"] = max(res["worst_energy_rel"], stats.get("worst_rel_energy_err", 0.0))
        res["windows_ok"] += 1 if stats.get("windows_ok") else 0
        res["families"][case["loads"]["family"]] = res["families"].get(case["loads"]["family"], 0) + 1
        res["horizons"].append(case["n_months"])
        for p in want:
            key = {"C06": "nontrivial06", "C07": "nontrivial07", "C08": "nontrivial08"}[p]
            if stats.get(key):
                res["nontrivial"].append([p, case["loads"]["family"], case["loads"]["seed"], case["n_months"]])
            for v in out[p][:3]:
                res["viol"].append({"prop": p, **v, "case": case, "borehole": bh})
        if len(res["samples"]) < 1:
            res["samples"].append({"case": case, "H": bh["H"], "pipe": bh["phys"]["pipe"]["arrangement"],
                                   "n_breakpoints": stats.get("segments")})
    return res


def run_check(prop, tier, seed):
    n_total = {"quick": 1600, "thorough": 20000}[tier]
    if prop == "C07":
        n_total = {"quick": 640, "thorough": 6400}[tier]
    per = n_total // NSHARDS
    specs = [{"want": [prop], "seed": seed, "shard": s, "n": per, "per_borehole": 2 if prop == "C07" else 10} for s in range(NSHARDS)]
    results = run_pool("vf.props.hybrid_common", specs, timeout=3600)
    rep = Report(prop)
    fams = {}
    horizons = set()
    for r in results:
        if "_harness_error" in r:
            rep.inconclusive.append("shard failed: " + r["_harness_error"][:300])
            continue
        rep.evaluations += r["cases"]
        for nt in r["nontrivial"]:
            if nt[0] == prop:
                rep.nontrivial(nt)
        for k, v in r["families"].items():
            fams[k] = fams.get(k, 0) + v
        horizons.update(r["horizons"])
        rep.worst("worst_month_energy_rel_err", r["worst_energy_rel"])
        rep.worst("worst_duration_abs_err_h", r["worst_dur_err"])
        rep.count("durations_recomputed", r["dur_checked"])
        rep.count("cases_with_non_overlapping_windows", r["windows_ok"])
        rep.count("skipped_unusable_borehole", r.get("skipped_borehole", 0))
        rep.count("sibling_boreholes_same_time_scale_and_resistance", r.get("sibling_boreholes", 0))
        for s in r["samples"]:
            rep.sample(s)
        for v in r["viol"]:
            if v["prop"] in (prop, "*"):
                rep.violate(v["mechanism"], v["message"], {"case": v["case"], "borehole": v["borehole"], "month": v.get("month")})
    from vf.props import pool_common as _PC

    _PC.add_workload_monitor_results(rep, prop, tier, seed)
    rep.extra["load_families"] = fams
    rep.extra["distinct_horizons"] = len(horizons)
    rep.extra["horizon_residues_mod_12"] = sorted({h % 12 for h in horizons})
    return rep


def replay_case(prop, w):
    wit = w["witness"]
    bhe_eq, rn = build_sts(wit["borehole"])
    loads = GL.make_loads(wit["case"]["loads"])
    hl = build_hybrid(loads, wit["case"]["n_months"], bhe_eq, rn)
    out, stats = observe(hl, loads, wit["case"]["n_months"], bhe_eq, rn, want=(prop,))
    if prop == "C07":
        check_durations(hl, loads, wit["case"]["n_months"], bhe_eq, rn, out)
    rep = Report(prop)
    rep.evaluations = 1
    rep.nontrivial_count = 2
    rep.rule = "replay of one witness"
    rep.sample(wit["case"])
    for v in out[prop]:
        rep.violate(v["mechanism"], v["message"], wit)
    return rep
