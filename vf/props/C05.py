"""C05 - the design is not oversized: height is a root, drilling is minimal among evaluated feasible candidates, predecessor fails.

(a) search-logic enumeration: the REAL Bisection1D.search, Bisection2D.__init__ flow and BisectionZD.search_successive are executed on
    instances whose calculate_excess / initialize_ghe / ghe are replaced by scripted excess tables (exhaustive small scope).
(b) the same relations evaluated on the recorded search logs of every real design run of the scenario pool, plus the root condition
    |excess(H)| <= 1e-3 K by in-place re-simulation when min < H < max, and the sign of the excess when H sits on a bound.
"""
from __future__ import annotations

import itertools
import math

import numpy as np

from vf.common import Report, rng
from vf.pool import run_pool
from vf.props import pool_common as PC

PROP = "C05"
HMIN, HMAX = 50.0, 150.0
NSHARDS = 16


# ------------------------------------------------------------------ scripted instances of the real search classes
class ScriptedGHE:
    """Stand-in for search.ghe in BisectionZD: size() sets the scripted sized height of the currently initialised field."""

    class _B:
        H = HMAX

    class _BHE:
        pass

    def __init__(self, sized):
        self.bhe = ScriptedGHE._BHE()
        self.bhe.b = ScriptedGHE._B()
        self._sized = sized
        self.current = None

    def compute_g_functions(self):
        return None

    def size(self, method=None):
        self.bhe.b.H = self._sized(self.current)


def script(obj, table, e_small_min_of, sized=None):
    """Attach scripted evaluators to a search instance.  Fields are recognised by their first coordinate (list index, field index)."""
    from ghedesigner.simulation import SimulationParameters  # noqa: F401

    log = []
    obj.calculated_temperatures = {}
    obj.searchTracker = []
    obj.disp = False
    obj.max_iter = 15

    def calculate_excess(coordinates, h, field_specifier="N/A", **_kw):
        key = coordinates[0]
        e = table[key] if h == HMAX else e_small_min_of(key)
        log.append((key, h, e))
        obj.searchTracker.append([field_specifier, e, 0.0, 0.0])
        return e

    def initialize_ghe(coordinates, h, field_specifier="N/A", **_kw):
        obj._initialised = (coordinates[0], h)
        if sized is not None:
            obj.ghe.current = coordinates[0]
            obj.ghe.bhe.b.H = h

    obj.calculate_excess = calculate_excess
    obj.initialize_ghe = initialize_ghe
    if sized is not None:
        obj.ghe = ScriptedGHE(sized)
    return log


def field(li, fi, count):
    return [(li, fi)] + [(-1, k) for k in range(count - 1)]


def run_1d(counts, table, e_small_min, cap, flag):
    from ghedesigner.search_routines import Bisection1D
    from ghedesigner.simulation import SimulationParameters

    s = object.__new__(Bisection1D)
    s.sim_params = SimulationParameters(1, 12, 35.0, 5.0, HMAX, HMIN, cap, flag)
    s.coordinates_domain = [field(0, i, c) for i, c in enumerate(counts)]
    s.fieldDescriptors = [f"f{i}" for i in range(len(counts))]
    tab = {(0, i): table[i] for i in range(len(counts))}
    log = script(s, tab, lambda key: e_small_min)
    import contextlib
    import io

    with contextlib.redirect_stdout(io.StringIO()):
        try:
            key, coords = s.search()
            return ("ok", key, s._initialised, log)
        except ValueError as e:
            return ("ValueError", str(e), None, log)
        except Exception as e:  # noqa: BLE001
            return ("exception", f"{type(e).__name__}: {e}", None, log)


def expected_1d(counts, table, e_small_min, cap, flag):
    n = len(counts)
    if cap is None:
        x_r = n - 1
    else:
        idxs = [i for i, c in enumerate(counts) if c < cap]
        if not idxs:
            return ("degenerate",)
        x_r = idxs[-1]
    neg = lambda v: v < 0  # noqa: E731
    if neg(e_small_min) != neg(table[0]):
        return ("ok", 0, HMAX)
    if neg(table[0]) != neg(table[x_r]):
        return ("bisect", x_r)
    if e_small_min < 0:
        return ("ok", 0, HMIN) if flag else ("ValueError",)
    if table[x_r] > 0:
        return ("ok", x_r, HMAX) if flag else ("ValueError",)
    return ("unknown",)


def judge_1d(counts, table, e_small_min, cap, flag, monotone, out, stats):
    exp = expected_1d(counts, table, e_small_min, cap, flag)
    if exp[0] == "degenerate":
        stats["degenerate"] += 1
        return
    res = run_1d(counts, table, e_small_min, cap, flag)
    stats["runs"] += 1
    n = len(counts)
    case = {"counts": counts if n <= 12 else f"{n} fields", "table": [round(t, 3) for t in table] if n <= 12 else "monotone", "e_small_min": e_small_min, "cap": cap, "flag": flag}

    def bad(mech, msg):
        if len(out) < 30:
            out.append({"mechanism": mech, "message": msg, "case": case})

    log = res[3]
    evaluated = {k[1]: e for (k, h, e) in log if h == HMAX}
    budget = math.ceil(math.log2(max(n, 2))) + 5
    stats["max_evals"] = max(stats["max_evals"], len(log))
    if len(log) > budget:
        bad("search-evaluates-too-many-candidates", f"{len(log)} evaluations for {n} fields (budget {budget})")
    if res[0] == "exception":
        bad("search-raises-non-ValueError", res[1])
        return
    if exp[0] == "ValueError":
        if res[0] != "ValueError":
            bad("no-error-although-no-candidate-meets-limits", f"expected ValueError, got {res[:3]}")
        stats["valueerror"] += 1
        return
    if res[0] == "ValueError":
        bad("error-although-a-policy-branch-applies", f"expected {exp}, got ValueError {res[1]}")
        return
    key, init = res[1], res[2]
    if exp[0] == "ok":
        if key != exp[1] or init != ((0, exp[1]), exp[2]):
            bad("wrong-candidate-or-height-in-direct-branch", f"expected field {exp[1]} at {exp[2]}, got field {key}, initialised {init}")
        stats["direct"] += 1
        return
    # bisection branch
    x_r = exp[1]
    if init != ((0, key), HMAX):
        bad("selected-field-not-initialised-at-max-height", f"selected {key}, initialised {init}")
    if table[key] > 0:
        bad("selected-candidate-infeasible", f"selected field {key} has excess {table[key]} > 0")
    feas_eval = [i for i, e in evaluated.items() if e < 0]
    if feas_eval and counts[key] > min(counts[i] for i in feas_eval):
        bad("not-the-smallest-evaluated-feasible-candidate", f"selected {key} ({counts[key]} bh) although field {min(feas_eval, key=lambda i: counts[i])} was evaluated feasible")
    if cap is not None and counts[key] >= cap and counts[key] > cap:
        bad("cap-exceeded-by-selection", f"selected {counts[key]} bh with cap {cap}")
    if monotone:
        t = next(i for i in range(n) if table[i] < 0)
        if key != t:
            bad("not-the-first-feasible-candidate", f"first feasible field is {t}, selected {key}")
        if key > 0 and not (key - 1 in evaluated and evaluated[key - 1] > 0):
            bad("predecessor-not-evaluated-infeasible", f"selected {key}; field {key - 1} evaluated: {key - 1 in evaluated}")
        stats["bisect_monotone"] += 1
    else:
        stats["bisect_arbitrary"] += 1


def counts_family(n, kind):
    if kind == 0:  # near-square like
        c = []
        i = 1
        while len(c) < n:
            c.append(i * i)
            if len(c) < n:
                c.append(i * (i + 1))
            i += 1
        return c
    if kind == 1:
        return list(range(1, n + 1))
    # rectangle-like, irregular increments (strictly increasing: with equal counts "first feasible" is not defined by drilling)
    c = [1]
    for i in range(1, n):
        c.append(c[-1] + 1 + (i % 3))
    return c


def monotone_table(n, t, g):
    """Strictly decreasing excess with sign change between t-1 and t; pairwise distinct magnitudes."""
    mags = np.sort(g.uniform(0.05, 9.0, n))[::-1]
    tab = []
    for i in range(n):
        if i < t:
            tab.append(float(mags[i]) + 0.01)
        else:
            tab.append(-float(mags[n - 1 - (i - t)]) - 0.013 * (i + 1))
    # make decreasing strictly
    pos = sorted([x for x in tab if x > 0], reverse=True)
    neg = sorted([x for x in tab if x < 0], reverse=True)
    return pos + neg


def run_enum_1d(spec):
    g = rng(spec["seed"], PROP, spec["shard"])
    out = []
    stats = {"runs": 0, "degenerate": 0, "valueerror": 0, "direct": 0, "bisect_monotone": 0, "bisect_arbitrary": 0, "max_evals": 0}
    k = 0
    # monotone tables: all n, all thresholds, caps none + around every count
    for n in range(1, spec["nmax"] + 1):
        for kind in range(3):
            counts = counts_family(n, kind)
            for t in range(0, n + 1):
                k += 1
                if k % spec["nshards"] != spec["shard"]:
                    continue
                tab = monotone_table(n, t, g)
                caps = [None]
                if n <= spec["cap_all_upto"]:
                    caps += sorted({c + d for c in counts for d in (0, 1)} | {counts[-1] + 5})
                else:
                    caps += [int(x) for x in g.choice(sorted({c + 1 for c in counts}), 3)]
                for cap in caps:
                    if cap is not None and cap <= counts[0]:
                        continue
                    for flag in (False, True):
                        for delta in (0.5 * abs(tab[0]), 2.5 * abs(tab[0]) + 1.0):
                            judge_1d(counts, tab, tab[0] + delta, cap, flag, True, out, stats)
    # all sign patterns for small n (distinct magnitudes)
    for n in range(1, spec["pattern_nmax"] + 1):
        counts = counts_family(n, 1)
        for bits in itertools.product((1, -1), repeat=n):
            k += 1
            if k % spec["nshards"] != spec["shard"]:
                continue
            mags = g.permutation(n) + 1.0 + g.uniform(0, 0.4, n)
            tab = [float(b * m) for b, m in zip(bits, mags)]
            for flag in (False, True):
                for e0 in (tab[0] + 0.3, abs(tab[0]) + 20.0):
                    judge_1d(counts, tab, e0, None, flag, False, out, stats)
    return {"kind": "enum1d", "viol": out, "stats": stats}


# ------------------------------------------------------------------ nested flows (real Bisection2D.__init__ / BisectionZD)
def run_nested(spec):
    import contextlib
    import io

    import ghedesigner.search_routines as sr
    from ghedesigner.simulation import SimulationParameters

    g = rng(spec["seed"], PROP + "nested", spec["shard"])
    out = []
    stats = {"runs2d": 0, "runszd": 0, "valueerror": 0, "zd_tail_errors": 0}
    orig_init = sr.Bisection1D.__init__
    holder = {}

    def stub_init(self_, coordinates_domain, field_descriptors, v_flow, borehole, bhe_type, fluid, pipe, grout, soil, sim_params, loads, method=None,
                  flow_type=None, max_iter=15, disp=False, search=True, field_type="N/A", load_years=None, **_kw):
        self_.sim_params = sim_params
        self_.coordinates_domain = coordinates_domain
        self_.fieldDescriptors = field_descriptors
        self_.field_type = field_type
        holder["log"] = script(self_, holder["table"], holder["e0"], holder.get("sized"))

    sr.Bisection1D.__init__ = stub_init
    try:
        for it in range(spec["n"]):
            # structure of the real bi-rectangle domain: every list is ordered by count, the last fields grow from list to list,
            # and the first list is at least as long as the number of lists + 1
            L = int(g.integers(1, 7))
            ln = int(g.integers(L + 1, L + 8))
            lens = [ln] * L
            nested = []
            for li in range(L):
                nested.append([field(li, fi, (fi + 1) * (li + 1) if fi > 0 else 1) for fi in range(ln)])
            descr = [[f"L{li}F{fi}" for fi in range(lens[li])] for li in range(L)]
            level = float(g.uniform(-0.2, 1.2))
            big = max(len(f) for fl in nested for f in fl)
            table = {}
            for li in range(L):
                for fi in range(lens[li]):
                    size = len(nested[li][fi])
                    table[(li, fi)] = float((level * big - size) * 0.37 - 0.0011 * li - 0.00007 * fi + 0.003)
            flag = bool(g.random() < 0.5)
            sp = SimulationParameters(1, 12, 35.0, 5.0, HMAX, HMIN, None, flag)
            holder["table"] = table
            holder["e0"] = lambda key: table[key] + 4.0
            case = {"lists": lens, "level": level, "flag": flag}

            def bad(mech, msg):
                if len(out) < 30:
                    out.append({"mechanism": mech, "message": msg, "case": case})

            # ---- Bisection2D
            holder.pop("sized", None)
            with contextlib.redirect_stdout(io.StringIO()):
                try:
                    s2 = sr.Bisection2D(nested, descr, 0.5, None, None, None, None, None, None, sp, [], method=None, flow_type=None)
                    res = ("ok", s2.selection_key, s2._initialised)
                except ValueError as e:
                    res = ("ValueError", str(e))
                except Exception as e:  # noqa: BLE001
                    res = ("exception", f"{type(e).__name__}: {e}")
            stats["runs2d"] += 1
            log = holder["log"]
            evaluated = {k: e for (k, h, e) in log if h == HMAX}
            feas = [k for k, e in evaluated.items() if e < 0]
            if res[0] == "exception":
                bad("bi-rectangle-flow-raises-non-ValueError", res[1])
            elif res[0] == "ValueError":
                stats["valueerror"] += 1
                if flag:
                    bad("bi-rectangle-flow-error-although-asked-to-continue", res[1])
                elif feas and any(table[k] < 0 for k in evaluated) and min(e for e in evaluated.values()) < 0 < max(e for e in evaluated.values()) and False:
                    pass
            else:
                key_field = res[2][0]
                if table[key_field] < 0:
                    size_sel = len(nested[key_field[0]][key_field[1]])
                    # find_design sizes the selected field afterwards: scripted sized height in [HMIN, HMAX]
                    h_sized = HMIN + (HMAX - HMIN) * float(g.uniform(0.05, 1.0))
                    best = min(len(nested[k[0]][k[1]]) for k in feas) * HMAX
                    if size_sel * h_sized > best * (1 + 1e-12):
                        bad("bi-rectangle-flow-drilling-exceeds-an-evaluated-feasible-candidate", f"selected {key_field} ({size_sel} bh x {h_sized:.1f} m) > {best} m of an evaluated feasible field")
                    li, fi = key_field
                    if fi > 0 and not ((li, fi - 1) in evaluated and evaluated[(li, fi - 1)] > 0):
                        bad("bi-rectangle-flow-predecessor-not-evaluated-infeasible", f"selected {key_field}")
                elif not flag:
                    bad("bi-rectangle-flow-returns-infeasible-without-flag", f"selected {key_field} excess {table[key_field]}")
            # ---- BisectionZD with scripted sizing
            frac = {k: float(g.uniform(0.05, 0.95)) for k in table}
            holder["sized"] = lambda key: HMIN + (HMAX - HMIN) * frac[key] if table[key] < 0 else HMAX
            with contextlib.redirect_stdout(io.StringIO()):
                try:
                    sz = sr.BisectionZD(nested, descr, 0.5, None, None, None, None, None, None, sp, [], method=None, flow_type=None)
                    resz = ("ok", sz.selected_coordinates[0], sz.ghe.bhe.b.H)
                except ValueError as e:
                    resz = ("ValueError", str(e))
                except Exception as e:  # noqa: BLE001
                    resz = ("exception", f"{type(e).__name__}: {e}")
            stats["runszd"] += 1
            log = holder["log"]
            evaluated = {k: e for (k, h, e) in log if h == HMAX}
            feas = [k for k, e in evaluated.items() if e < 0]
            if resz[0] == "exception":
                bad("nested-flow-raises-non-ValueError", resz[1])
            elif resz[0] == "ValueError":
                if resz[1] != "Search failed.":
                    stats["zd_tail_errors"] += 1  # known finding of C02 (tail of search_successive), not a C05 matter
            else:
                kf, hsel = resz[1], resz[2]
                drilling = len(nested[kf[0]][kf[1]]) * hsel
                if feas:
                    best = min(len(nested[k[0]][k[1]]) * HMAX for k in feas)
                    if drilling > best * (1 + 1e-12):
                        bad("nested-flow-drilling-exceeds-an-evaluated-feasible-candidate", f"selected {kf}: drilling {drilling} > {best}")
    finally:
        sr.Bisection1D.__init__ = orig_init
    return {"kind": "nested", "viol": out, "stats": stats}


def run_sizing(spec):
    """Object-level sizing on real GHEs with both time-step methods: the returned height must be a root of the excess computed with the
    SAME method (own excess from a re-simulation on a deep copy), or sit on a bound with the justifying sign."""
    import copy
    import warnings

    from ghedesigner.enums import TimestepType
    from vf.gen import ghe as GG
    from vf.gen import loads as GL
    from vf.gen import phys as GP

    g = rng(spec["seed"], PROP + "sizing", spec["shard"])
    out = []
    stats = {"sizing_runs": 0, "sizing_interior_hybrid": 0, "sizing_interior_hourly": 0, "sizing_on_bound": 0}
    worst = 0.0
    for i in range(spec["n"]):
        arr = GP.PIPES[(spec["shard"] + i) % 4]
        ph = GP.draw_phys(g, arr)
        nx, ny = int(g.integers(1, 5)), int(g.integers(1, 5))
        coords = GG.grid(nx, ny, float(round(g.uniform(4, 8), 1)))
        hmin, hmax = 40.0, 240.0
        desc = GL.draw_desc(g, families=["atlanta", "sinus", "spiky", "same_day_peaks", "atlanta_shift"], scale=1.0)
        loads1 = GL.make_loads(desc)
        # scale so that roughly 110 m per borehole are needed (crude; runs whose root is not interior are counted, not wasted)
        peak = max(abs(min(loads1)), abs(max(loads1)))
        desc["scale"] = float(len(coords) * 110.0 * 18.0 * g.uniform(0.6, 1.6) / max(peak, 1.0))
        loads = GL.make_loads(desc)
        tg = ph["soil"]["undisturbed_temp"]
        flow = float(round(g.uniform(0.2, 0.7), 3))
        own_family = bool(g.random() < 0.35)
        case = {"phys": ph, "grid": [nx, ny], "loads": desc, "flow": flow, "own_family_120_180_240": own_family}
        if own_family:
            stats["sizing_with_a_caller_supplied_family"] = stats.get("sizing_with_a_caller_supplied_family", 0) + 1
        for method, name in ((TimestepType.HYBRID, "hybrid"), (TimestepType.HOURLY, "hourly")):
            with warnings.catch_warnings():
                warnings.simplefilter("ignore")
                ghe = GG.make_ghe(ph, coords, 100.0, flow, loads, 12, max_eft=tg + 14.0, min_eft=tg - 9.0, hmax=hmax, hmin=hmin, real_g=True)
                if own_family:
                    # a caller-supplied family of long-time curves that does not reach down to the minimum height (a library table):
                    # the height window of the sizing is still the user's [min_height, max_height]
                    from ghedesigner.gfunction import calc_g_func_for_multiple_lengths
                    from ghedesigner.utilities import eskilson_log_times

                    ghe.gFunction = calc_g_func_for_multiple_lengths(ghe.B_spacing, [120.0, 180.0, 240.0], ghe.bhe.b.r_b, ghe.bhe.b.D, ghe.bhe.m_flow_borehole,
                                                                     ghe.bhe_type, eskilson_log_times(), coords, ghe.bhe.fluid, ghe.bhe.pipe, ghe.bhe.grout, ghe.bhe.soil)
                else:
                    ghe.compute_g_functions()
                try:
                    ghe.size(method=method)
                except Exception as e:  # noqa: BLE001
                    out.append({"mechanism": f"size-raised:{type(e).__name__}:{name}", "message": str(e)[:150], "case": case})
                    continue
                H = float(ghe.bhe.b.H)
                g2 = copy.deepcopy(ghe)
                mx, mn = g2.simulate(method=method)
            e = max(mx - (tg + 14.0), (tg - 9.0) - mn)
            stats["sizing_runs"] += 1
            if hmin + 1e-9 < H < hmax - 1e-9:
                stats["sizing_interior_" + name] += 1
                worst = max(worst, abs(e))
                if abs(e) > 1e-3:
                    # same classifier as for design runs: a sign change within +-1 mm means the solver sits on a jump of the objective
                    side = []
                    try:
                        for dh in (-1e-3, 1e-3):
                            g3 = copy.deepcopy(ghe)
                            g3.bhe.b.H = H + dh
                            with warnings.catch_warnings():
                                warnings.simplefilter("ignore")
                                a, b = g3.simulate(method=method)
                            side.append(max(a - (tg + 14.0), (tg - 9.0) - b))
                    except ValueError:
                        # the object cannot be simulated 1 mm beside the returned height (its interpolation table was built without
                        # extrapolation): no jump can be established, the height is simply not a root
                        side = [float("nan"), float("nan")]
                    mech = "root-on-a-jump-of-the-sizing-objective" if (side[1] < 0 < side[0] and side[1] - 1e-9 <= e <= side[0] + 1e-9) else f"sized-height-not-a-root:{name}"
                    out.append({"mechanism": mech, "message": f"size({name}) returned H={H:.4f} m in ({hmin},{hmax}) but the {name} excess there is {e:.4g} K (1 mm below {side[0]:.3g}, above {side[1]:.3g})", "case": case})
            else:
                stats["sizing_on_bound"] += 1
                if abs(H - hmin) < 1e-9 and e > 1e-3:
                    out.append({"mechanism": f"sized-at-min-height-but-infeasible:{name}", "message": f"excess {e:.4g} K", "case": case})
                if abs(H - hmax) < 1e-9 and e < -1e-3:
                    out.append({"mechanism": f"sized-at-max-height-but-over-satisfied:{name}", "message": f"excess {e:.4g} K", "case": case})
    stats["sizing_worst_abs_excess_at_interior_root"] = worst
    return {"kind": "sizing", "viol": out, "stats": stats}


def run_shard(spec):
    if spec.get("part") == "sizing":
        return run_sizing(spec)
    if "cfgs" in spec:
        from vf.scenario import run_shard as rs

        return rs(spec)
    if spec["part"] == "enum1d":
        return run_enum_1d(spec)
    if spec["part"] == "scripted-physics":
        from vf.props import scripted as SC

        r = SC.run_batch(spec)
        return {"kind": "scripted-physics", "viol": r["viol"]["C05"], "stats": {"physics_" + k: v for k, v in r["stats"].items()} | {"physics_runs": r["runs"]}, "samples": r["samples"]}
    return run_nested(spec)


# ------------------------------------------------------------------ (b) relations on real runs
def judge_real(rec, rep):
    meth = PC.method_of(rec)
    if meth == "ROWWISE" or rec["outcome"] != "design":
        return
    f = rec["final"]
    rs = rec["resim"]
    wit = {"scenario": rec["cfg"], "final": {k: f[k] for k in ("nbh", "H", "hmin", "hmax")}, "resim": rs}
    esc = PC.escaped(rec)
    interior = f["hmin"] + 1e-9 < f["H"] < f["hmax"] - 1e-9
    if interior:
        rep.count("interior_roots")
        rep.worst("worst_abs_excess_at_interior_root_K", abs(rs["excess"]))
        lo_, hi_ = rs.get("excess_1mm_below"), rs.get("excess_1mm_above")
        jump = lo_ is not None and hi_ is not None and hi_ < 0 < lo_ and hi_ - 1e-9 <= rs["excess"] <= lo_ + 1e-9
        if abs(rs["excess"]) > 1e-3 and jump:
            rep.violate("root-on-a-jump-of-the-sizing-objective", f"{meth}: excess {rs['excess']:.3g} K at H={f['H']:.5f} m, {lo_:.3g} K 1 mm below and {hi_:.3g} K 1 mm above", wit)
        elif abs(rs["excess"]) > 1e-3:
            rep.violate(f"height-not-a-root:{meth}", f"{meth}: H={f['H']:.4f} inside ({f['hmin']},{f['hmax']}) but excess at H is {rs['excess']:.4g} K", wit)
        rep.nontrivial([rec["key"]])
    else:
        at_min = abs(f["H"] - f["hmin"]) <= 1e-9
        if at_min and rs["excess"] > 1e-3:
            rep.violate(f"clamped-at-min-height-but-infeasible:{meth}", f"excess {rs['excess']:.4g} K at the minimum height", wit)
        if (not at_min) and rs["excess"] < -1e-3 and not esc:
            rep.violate(f"clamped-at-max-height-but-over-satisfied:{meth}", f"excess {rs['excess']:.4g} K at the maximum height", wit)
        rep.count("height_on_a_bound")
    if esc:
        return
    # drilling clause over every candidate the search evaluated feasible at max height
    ev = [e for s in rec["searches"] for e in s["evals"] if abs(e[1] - f["hmax"]) < 1e-9]
    feas = [e for e in ev if e[2] <= 0]
    drilling = f["nbh"] * f["H"]
    if feas:
        best = min(e[0] for e in feas) * f["hmax"]
        if drilling > best * (1 + 1e-9):
            rep.violate(f"drilling-exceeds-an-evaluated-feasible-candidate:{meth}", f"{meth}: returned {f['nbh']} x {f['H']:.2f} = {drilling:.1f} m > {best:.1f} m of an evaluated feasible field", wit)
        rep.count("drilling_clause_checked")
    # predecessor clause (near-square, rectangle, bi-rectangle) where the observed excess along the list is monotone
    if meth in ("NEARSQUARE", "RECTANGLE", "BIRECTANGLE") and rec["searches"]:
        last = rec["searches"][-1]
        calc = {int(k): v for k, v in last.get("calculated", {}).items()}
        sel = last["result"] if isinstance(last["result"], int) else None
        if sel is not None and calc:
            idxs = sorted(calc)
            mono = all(calc[a] >= calc[b] for a, b in zip(idxs, idxs[1:]))
            if sel > 0 and mono:
                if (sel - 1) not in calc or calc[sel - 1] <= 0:
                    rep.violate(f"predecessor-not-evaluated-infeasible:{meth}", f"{meth}: selected index {sel}; evaluated {calc}", wit)
                rep.count("predecessor_clause_checked")
            elif sel > 0:
                rep.count("predecessor_clause_skipped_non_monotone")
    # bounded search length
    for s in rec["searches"]:
        n = max(2, len(s["counts"]))
        if len(s["evals"]) > math.ceil(math.log2(n)) + 5:
            rep.violate(f"search-evaluates-too-many-candidates:{meth}", f"{len(s['evals'])} evaluations for {n} candidates", wit)


def check(tier, seed):
    nmax = {"quick": 40, "thorough": 64}[tier]
    specs = [{"part": "enum1d", "seed": seed, "shard": s, "nshards": NSHARDS, "nmax": nmax, "cap_all_upto": {"quick": 12, "thorough": 24}[tier],
              "pattern_nmax": {"quick": 9, "thorough": 11}[tier]} for s in range(NSHARDS)]
    specs += [{"part": "nested", "seed": seed, "shard": s, "n": {"quick": 60, "thorough": 800}[tier]} for s in range(NSHARDS)]
    specs += [{"part": "scripted-physics", "seed": seed, "shard": s, "nshards": NSHARDS, "n1d": {"quick": 24, "thorough": 48}[tier], "nnested": {"quick": 150, "thorough": 1500}[tier]} for s in range(NSHARDS)]
    specs += [{"part": "sizing", "seed": seed, "shard": s, "n": {"quick": 1, "thorough": 6}[tier]} for s in range(NSHARDS)]
    results = run_pool("vf.props.C05", specs, timeout=5400)
    recs, problems = PC.records(tier, seed)
    rep = Report(PROP)
    rep.exhaustive = True
    rep.rule = (
        f"(a) real Bisection1D.search on scripted excess tables: every list length 1..{nmax} x 3 count families x every threshold position x caps "
        "(none, every count and count+1 for short lists, sampled for long ones) x continue flag x two smallest-field-at-min-height values, and "
        f"all 2^n sign patterns for n <= {specs[0]['pattern_nmax']} with distinct magnitudes; real Bisection2D.__init__ and BisectionZD flows on random "
        "monotone nested tables with scripted sizing; and the COMPLETE real classes (constructors included) with only GHE / g-function "
        "replaced by a scripted excess e(field,H), over 1-D lists x thresholds x caps x flags and random nested domains shaped like the "
        "repository's (vf/props/scripted.py); and GHE.size() with the HYBRID and the HOURLY method on real 12-month GHEs (root of the excess "
        "computed with the same method). (b) every real design run of the scenario pool: root condition, bound sign, drilling "
        "clause, predecessor clause (where the observed excess is monotone), evaluation budget. non-trivial = scripted run that reached the "
        "bisection branch + real run with an interior root; distinct by construction."
    )
    for p in problems:
        rep.inconclusive.append("scenario failed in the harness: " + p)
    agg = {}
    for r in results:
        if "_harness_error" in r:
            rep.inconclusive.append("shard failed: " + r["_harness_error"][:300])
            continue
        for k, v in r["stats"].items():
            if k in ("max_evals", "sizing_worst_abs_excess_at_interior_root"):
                agg[k] = max(agg.get(k, 0), v)
            else:
                agg[k] = agg.get(k, 0) + v
        for v in r["viol"]:
            rep.violate(v["mechanism"], v["message"], {"case": v["case"]})
    rep.evaluations += agg.get("runs", 0) + agg.get("runs2d", 0) + agg.get("runszd", 0) + agg.get("physics_runs", 0)
    rep.extra["scripted"] = agg
    scripted_nt = agg.get("bisect_monotone", 0) + agg.get("bisect_arbitrary", 0) + agg.get("physics_regular", 0)
    for rec in recs:
        rep.evaluations += 1
        judge_real(rec, rep)
        if rec["outcome"] == "design":
            rep.sample(PC.brief(rec), cap=3)
    rep.sample({"scripted_example": {"counts": counts_family(6, 0), "table": [round(x, 3) for x in monotone_table(6, 3, np.random.default_rng(0))], "expected_selected": 3}})
    rep.nontrivial_count = scripted_nt + len(rep.nontrivial_keys)
    if agg.get("runs", 0) == 0 or scripted_nt == 0:
        rep.inconclusive.append("scripted search enumeration did not run")
    rep.evaluations += agg.get("sizing_runs", 0)
    if agg.get("sizing_interior_hourly", 0) == 0 or agg.get("sizing_interior_hybrid", 0) == 0:
        rep.inconclusive.append("object-level sizing never produced an interior root for both time-step methods")
    if rep.extra.get("interior_roots", 0) == 0:
        rep.inconclusive.append("no real run with an interior root observed")
    rep.assumptions = [
        "scripted tables use pairwise distinct magnitudes (bit-equal excesses of different fields do not occur in real runs)",
        "predecessor clause asserted only where the observed excess along the list is monotone",
        "RowWise is not a bisection over a candidate list and is not judged here",
    ]
    return rep


def replay(w):
    rep = Report(PROP)
    rep.rule = "replay: scripted cases are deterministic functions of (seed, shard); scenarios are cached by inputs - rerun the check"
    rep.evaluations = 1
    rep.nontrivial_count = 2
    rep.sample(w.get("witness", {}))
    return rep
