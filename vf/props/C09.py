"""C09 - simulated entering fluid temperatures equal the documented temporal superposition.

Monitor: wrapper on BaseGHE._simulate_detailed (records q, t, the g interpolant and the result of every call) while the
         real simulate(HYBRID/HOURLY) and direct calls run on real GHE objects.
Oracle : vf.oracle.superposition.eft (own O(n^2) sum, own reading of k, H, N, m_dot, c_p, Rb*, T_g, own t_s = H^2/(9 alpha),
         own linear interpolation of the g table) + four metamorphic relations.
"""
from __future__ import annotations

import math
import warnings

import numpy as np

from vf.common import Report, rng
from vf.gen import ghe as GG
from vf.gen import loads as GL
from vf.gen import phys as GP
from vf.oracle.superposition import eft
from vf.pool import run_pool

PROP = "C09"
NSHARDS = 16


class SimTap:
    def __init__(self):
        from ghedesigner.ground_heat_exchangers import BaseGHE

        self.cls = BaseGHE
        self.orig = BaseGHE._simulate_detailed
        self.calls = []
        self.hits = 0
        tap = self

        def wrapped(self_, q_dot, time_values, g, *a_, **kw_):
            r = tap.orig(self_, q_dot, time_values, g, *a_, **kw_)
            tap.hits += 1
            tap.calls.append({"q": np.array(q_dot, dtype=float, copy=True), "t": np.array(time_values, dtype=float, copy=True),
                              "gx": np.array(g.x, copy=True), "gy": np.array(g.y, copy=True),
                              "eft": np.array(r[0], dtype=float), "dtb": np.array(r[1], dtype=float)})
            return r

        BaseGHE._simulate_detailed = wrapped

    def pop(self):
        c = self.calls
        self.calls = []
        return c

    def uninstall(self):
        self.cls._simulate_detailed = self.orig


def params_of(ghe):
    """The harness's own reading of the physical parameters (from the inputs, not from _simulate_detailed's locals)."""
    alpha = ghe.bhe.soil.k / ghe.bhe.soil.rhoCp
    H = ghe.bhe.b.H
    return dict(
        tg=ghe.bhe.soil.ugt,
        k=ghe.bhe.soil.k,
        H=H,
        N=len(ghe.gFunction.bore_locations),
        m_dot=ghe.V_flow_system / len(ghe.gFunction.bore_locations) / 1000.0 * ghe.bhe.fluid.rho,
        cp=ghe.bhe.fluid.cp,
        rb=ghe.bhe.calc_effective_borehole_resistance(),
        ts=H**2 / (9.0 * alpha),
    )


def compare(got, exp, scale):
    got = np.asarray(got, dtype=float)
    if got.shape != exp.shape:
        return math.inf
    if not np.all(np.isfinite(got)):
        return math.inf
    return float(np.max(np.abs(got - exp)) / scale)


def random_g_table(g, ts, t_min_h, t_max_h):
    """Random monotone g table covering the lags that will be asked for."""
    lo = math.log(t_min_h * 3600.0 / ts) - 0.5
    hi = math.log(t_max_h * 3600.0 / ts) + 0.5
    n = int(g.integers(5, 60))
    x = np.sort(g.uniform(lo, hi, n))
    x[0], x[-1] = lo, hi
    x = np.unique(x)
    start = float(g.choice([0.0, g.uniform(-1.5, 0.0), g.uniform(0, 3)]))
    y = start + np.cumsum(np.concatenate(([0.0], g.uniform(0.0, 0.8, len(x) - 1))))
    return x, y


def run_case(tap, g, idx, spec):
    from scipy.interpolate import interp1d

    from ghedesigner.enums import TimestepType

    v = []
    stats = {}
    arr = GP.PIPES[idx % 4]
    ph = GP.draw_phys(g, arr)
    H = float(round(g.uniform(25, 380), 1))
    nx, ny = int(g.integers(1, 21)), int(g.integers(1, 21))
    if g.random() < 0.2:
        nx, ny = 1, 1
    coords = GG.grid(nx, ny, float(round(g.uniform(3, 9), 2)))
    flow = GP.draw_flow(g, arr)
    n_months = int(g.choice([1, 5, 12, 13, 24, 36, 60, 120, 240])) if g.random() < 0.8 else int(g.integers(1, 241))
    # the long-time table ends at ln(t/ts) = 3.003: keep the horizon inside it (shallow boreholes in diffusive soil would otherwise make
    # the tool's own interpolation raise, which is not what this property is about)
    ts_est = H**2 / (9.0 * ph["soil"]["conductivity"] / ph["soil"]["rho_cp"])
    n_months = max(1, min(n_months, int(19.0 * ts_est / (744.0 * 3600.0))))
    desc = GL.draw_desc(g)
    if g.random() < 0.3:
        desc["form"] = "int"  # whole watts as Python ints (a JSON input written without decimal points)
    loads = GL.make_loads(desc)
    case = {"phys": ph, "H": H, "grid": [nx, ny], "flow": flow, "n_months": n_months, "loads": desc}

    def bad(mech, msg):
        v.append({"mechanism": mech, "message": msg, "case": case})

    real_g = (idx % spec["real_every"]) == 0 and nx * ny <= 64
    # the simulated window need not begin in January (SimulationParameters(start_month, end_month, ...))
    start_month = 1 if g.random() < 0.7 else int(g.choice([2, 4, 7, 12, 13]))  # (a window that starts in the third year, start_month = 25, raises IndexError in HybridLoad: logged as out of scope)
    case["start_month"] = start_month
    ghe = GG.make_ghe(ph, coords, H, flow, loads, n_months, start_month=start_month, rgen=g, real_g=real_g)
    P = params_of(ghe)
    scale = max(1.0, abs(P["tg"]))
    tap.pop()
    # ---------------- (1) direct feed: random sequence, random time axis, random monotone g table
    n = int(g.integers(10, 400))
    axis = int(g.integers(0, 6))
    if axis <= 2:
        dt = g.uniform(0.01, 200.0, n)
    elif axis == 3:
        dt = g.choice([1.0, 24.0, 730.0], n)
    elif axis == 4:  # equal increments (hourly-like, any step)
        dt = np.full(n, float(g.choice([1.0, 0.25, 6.0, 24.0, g.uniform(0.5, 50)])))
    else:  # equal increments after a first period of another length (a month, then equal peaks; an offset hourly axis)
        step = float(g.choice([1.0, 6.0, 12.0, 24.0, g.uniform(0.5, 50)]))
        dt = np.full(n, step)
        dt[0] = float(g.choice([0.5 * step, 3.0 * step, 744.0, g.uniform(0.1, 5) * step]))
        if g.random() < 0.3:
            n = 2
            dt = dt[:2]
    t = np.cumsum(dt)
    stats["axis_family"] = axis
    sign_mode = int(g.integers(0, 4))
    n = len(t)
    q = g.normal(0, 1, n) * 10 ** g.uniform(2, 5.5)
    if sign_mode == 1:
        q = np.abs(q)
    elif sign_mode == 2:
        q = -np.abs(q)
    # whole-watt loads as an integer array, and the hourly axis as the integer array the tool itself builds (np.arange(1, n + 1))
    if g.random() < 0.15:
        q = np.round(q).astype(np.int64)
        stats["int_load_array"] = True
    if axis == 4 and float(dt[0]) == 1.0:
        t = np.arange(1, n + 1, 1)
        stats["int_time_axis"] = True
    gx, gy = random_g_table(g, P["ts"], float(dt.min()) * 0.999, float(t[-1]) * 1.001)
    gi = interp1d(gx, gy)
    with warnings.catch_warnings():
        warnings.simplefilter("ignore")
        got, got_dtb = ghe._simulate_detailed(q, t, gi)
    exp, exp_dtb = eft(q, t, gx, gy, **P)
    span = max(1.0, float(np.max(np.abs(exp - P["tg"]))))
    e1 = compare(got, exp, span)
    stats["direct_err"] = e1
    if e1 > 1e-9:
        bad("direct-call-differs-from-superposition", f"max |dT| / span = {e1:.3g} over {n} steps (N={P['N']}, H={H})")
    e1b = compare(got_dtb, exp_dtb, span)
    if e1b > 1e-9:
        bad("borehole-wall-term-differs", f"max |d(dTb)| / span = {e1b:.3g}")
    # metamorphic relations on the same object
    with warnings.catch_warnings():
        warnings.simplefilter("ignore")
        z, _ = ghe._simulate_detailed(np.zeros(n), t, gi)
        lam = float(g.uniform(0.1, 7.0))
        s, _ = ghe._simulate_detailed(lam * q, t, gi)
    if not all(float(x) == P["tg"] for x in z):
        bad("zero-load-not-exactly-ground-temperature", f"zero load gives {z[0]} ... instead of {P['tg']}")
    dev = np.asarray(got) - P["tg"]
    if compare(np.asarray(s) - P["tg"], lam * dev, max(1.0, lam * span)) > 1e-9:
        bad("not-linear-in-load", f"loads x {lam} do not scale the departure by {lam}")
    if gy[0] >= 0 and P["rb"] / P["H"] >= 1.0 / (2 * P["m_dot"] * P["cp"]):
        if sign_mode == 1 and np.min(dev) < -1e-9 * span:
            bad("rejection-lowers-temperature", f"all-rejection sequence gives {np.min(dev)} K below ground temperature")
        if sign_mode == 2 and np.max(dev) > 1e-9 * span:
            bad("extraction-raises-temperature", f"all-extraction sequence gives {np.max(dev)} K above ground temperature")
        stats["sign_checked"] = sign_mode in (1, 2)
    old = ghe.bhe.soil.ugt
    delta = float(g.uniform(-7, 9))
    ghe.bhe.soil.ugt = old + delta
    with warnings.catch_warnings():
        warnings.simplefilter("ignore")
        sh, _ = ghe._simulate_detailed(q, t, gi)
    ghe.bhe.soil.ugt = old
    if compare(np.asarray(sh) - delta, np.asarray(got), span) > 1e-9:
        bad("ground-temperature-shift-not-additive", f"T_g + {delta} does not shift every result by {delta}")
    tap.pop()
    # ---------------- (2) simulate(HYBRID): oracle starts from hybrid_load.load/hour (kW, h)
    with warnings.catch_warnings():
        warnings.simplefilter("ignore")
        mx, mn = ghe.simulate(method=TimestepType.HYBRID)
    calls = tap.pop()
    if len(calls) != 1:
        bad("simulate-did-not-call-the-detailed-routine-once", f"{len(calls)} calls")
    else:
        c = calls[0]
        hl = ghe.hybrid_load
        qh = np.asarray(hl.load[2:], dtype=float) * 1000.0
        th = np.asarray(hl.hour[2:], dtype=float)
        if np.all(np.diff(np.concatenate(([0.0], th))) > 0):
            exp_h, _ = eft(qh, th, c["gx"], c["gy"], **P)
            span_h = max(1.0, float(np.max(np.abs(exp_h - P["tg"]))))
            e2 = compare(ghe.hp_eft, exp_h, span_h)
            stats["hybrid_err"] = e2
            if e2 > 1e-9:
                bad("hybrid-simulation-differs-from-superposition", f"max |dT| / span = {e2:.3g} over {len(qh)} steps")
            if abs(mx - float(np.max(exp_h))) > 1e-9 * span_h or abs(mn - float(np.min(exp_h))) > 1e-9 * span_h:
                bad("returned-extremes-differ", f"simulate returned ({mx},{mn}) vs oracle ({np.max(exp_h)},{np.min(exp_h)})")
            stats["hybrid_steps"] = len(qh)
        else:
            stats["hybrid_axis_not_monotone"] = True
    # ---------------- (3) simulate(HOURLY) on a fresh object for short horizons
    if spec["hourly"] and idx % spec["hourly_every"] == 0:
        nm = int(g.choice([12, 24]))
        if nm * 744.0 * 3600.0 > 19.0 * ts_est:
            nm = 12
        # the hourly loads are handed over as the list they are, or as a float64 array (what numpy users pass); the simulation is
        # run twice on the same object: both runs must reproduce the superposition of the loads as given
        loads_given = tuple(float(x) for x in loads)
        # (arrays only for one-year horizons: for longer ones the tool repeats the profile with `list * n_years`, which scales an array
        #  instead - the constructor documents a list, so that is logged as an observation, not judged)
        as_array = bool(g.random() < 0.5) and nm == 12
        loads_arg = np.asarray(loads_given, dtype=np.float64) if as_array else loads
        ghe2 = GG.make_ghe(ph, coords, H, flow, loads_arg, nm, rgen=g, real_g=False)
        P2 = params_of(ghe2)
        tap.pop()
        with warnings.catch_warnings():
            warnings.simplefilter("ignore")
            mx2, mn2 = ghe2.simulate(method=TimestepType.HOURLY)
            first_run = np.array(ghe2.hp_eft, dtype=float)
            mx2, mn2 = ghe2.simulate(method=TimestepType.HOURLY)
        calls = tap.pop()
        c = calls[-1]
        stats["hourly_runs_on_float_arrays"] = 1 if as_array else 0
        nh = int(nm / 12.0 * 8760.0)
        qd = -np.array(list(loads_given) * (nm // 12), dtype=float)
        td = np.arange(1, nh + 1, dtype=float)
        exp_d, _ = eft(qd, td, c["gx"], c["gy"], **P2)
        span_d = max(1.0, float(np.max(np.abs(exp_d - P2["tg"]))))
        e3 = compare(ghe2.hp_eft, exp_d, span_d)
        stats["hourly_err"] = e3
        stats["hourly_steps"] = nh
        if e3 > 1e-9:
            bad("hourly-simulation-differs-from-superposition", f"max |dT| / span = {e3:.3g} over {nh} hours (second run on the object{', loads given as a float64 array' if as_array else ''})")
        e3a = compare(first_run, exp_d, span_d)
        if e3a > 1e-9:
            bad("hourly-simulation-differs-from-superposition", f"max |dT| / span = {e3a:.3g} over {nh} hours (first run{', loads given as a float64 array' if as_array else ''})")
    both_signs = sign_mode in (0, 3) and (n >= 10 or axis == 5)
    return v, stats, case, both_signs


def run_shard(spec):
    g = rng(spec["seed"], PROP, spec["shard"])
    tap = SimTap()
    res = {"cases": 0, "viol": [], "nontrivial": [], "samples": [], "worst": {}, "steps": 0, "hourly_runs": 0, "sign_checked": 0, "skipped": 0}
    for i in range(spec["n"]):
        idx = spec["shard"] * 10000 + i
        try:
            v, stats, case, nt = run_case(tap, g, idx, spec)
        except Exception as e:  # noqa: BLE001
            import traceback

            res["viol"].append({"mechanism": f"harness-or-tool-exception:{type(e).__name__}", "message": traceback.format_exc()[-600:], "case": {}})
            continue
        res["cases"] += 1
        for kk in ("direct_err", "hybrid_err", "hourly_err"):
            if kk in stats:
                res["worst"][kk] = max(res["worst"].get(kk, 0.0), stats[kk])
        res["steps"] += stats.get("hybrid_steps", 0) + stats.get("hourly_steps", 0)
        res["hourly_runs"] += 1 if "hourly_err" in stats else 0
        res["sign_checked"] += 1 if stats.get("sign_checked") else 0
        if nt:
            res["nontrivial"].append([case["H"], case["grid"], case["flow"], case["loads"]["seed"]])
        res["viol"].extend(v)
        if not res["samples"]:
            res["samples"].append({"case": case, "stats": stats})
    res["hits"] = tap.hits
    tap.uninstall()
    return res


def check(tier, seed):
    n = {"quick": 320, "thorough": 5120}[tier]
    specs = [
        {"seed": seed, "shard": s, "n": n // NSHARDS, "real_every": 10, "hourly": True, "hourly_every": {"quick": 10, "thorough": 16}[tier]}
        for s in range(NSHARDS)
    ]
    results = run_pool("vf.props.C09", specs, timeout=5400)
    rep = Report(PROP)
    rep.rule = (
        "case = real GHE (four pipe types, 1..400 boreholes, H 25-380 m, synthetic monotone long-time table or pygfunction's for every 10th "
        "case) driven three ways: (1) random 10-400-step load sequence on a random increasing time axis with a random monotone g table fed "
        "to _simulate_detailed, plus zero-load, scaling, sign and ground-temperature-shift relations; (2) simulate(HYBRID) for a generated "
        "8760-h profile and horizon, oracle starting from hybrid_load.load/hour; (3) simulate(HOURLY) for 12/24 months on a fresh object. "
        "non-trivial = case whose direct sequence has both signs and >= 10 steps; distinct by inputs."
    )
    hits = 0
    for r in results:
        if "_harness_error" in r:
            rep.inconclusive.append("shard failed: " + r["_harness_error"][:300])
            continue
        rep.evaluations += r["cases"]
        hits += r["hits"]
        rep.count("simulate_steps_compared", r["steps"])
        rep.count("hourly_runs", r["hourly_runs"])
        rep.count("sign_relation_checked", r["sign_checked"])
        for k2, v2 in r["worst"].items():
            rep.worst("worst_" + k2, v2)
        for nt in r["nontrivial"]:
            rep.nontrivial(nt)
        for s in r["samples"]:
            rep.sample(s)
        for v in r["viol"]:
            rep.violate(v["mechanism"], v["message"], {"case": v["case"]})
    rep.extra["monitor_hits_simulate_detailed"] = hits
    from vf.props import pool_common as _PC

    _PC.add_workload_monitor_results(rep, PROP, tier, seed)
    if hits == 0:
        rep.inconclusive.append("wrapper on _simulate_detailed never reached")
    if rep.extra.get("hourly_runs", 0) == 0:
        rep.inconclusive.append("no hourly simulation was observed")
    rep.assumptions = [
        "Rb* from pygfunction; g table values taken from the interpolant the tool itself passed to the routine (its construction is C11's subject)",
        "sign relation asserted only when the g table is non-negative and Rb*/H >= 1/(2 m c_p)",
    ]
    return rep


def replay(w):
    rep = Report(PROP)
    rep.rule = "replay not supported for C09 witnesses (cases are regenerated from seed/shard); rerun the check with the same VERIF_SEED"
    rep.evaluations = 1
    rep.nontrivial_count = 2
    rep.sample(w.get("witness", {}))
    return rep
