"""C15 - equivalent single U-tube keeps fluid/pipe volumes, the fluid-to-pipe resistance target and Rb*.

Monitor: post-conversion assertions on the object returned by the real to_single() of real exchangers.
Oracle : geometric areas from the input dimensions, R_fp recomputed from the equivalent tube's own h_f/geometry,
         Rb* of both exchangers from pygfunction's multipole solution.
"""
from __future__ import annotations

import copy
import math

import numpy as np

from vf.common import Report, rng
from vf.gen import phys as GP
from vf.pool import run_pool

PROP = "C15"
NSHARDS = 16


def judge(bhe, eq, ph):
    v = []
    info = {}
    pipe = ph["pipe"]
    arr = pipe["arrangement"]

    def bad(mech, msg, **kw):
        v.append({"mechanism": mech, "message": msg, **kw})

    if arr == "SINGLEUTUBE":
        if eq is not bhe:
            bad("single-u-tube-not-converted-to-itself", "to_single() returned a different object")
        return v, info
    if arr == "COAXIAL":
        r_ii, r_io = pipe["inner_pipe_d_in"] / 2, pipe["inner_pipe_d_out"] / 2
        r_oi, r_oo = pipe["outer_pipe_d_in"] / 2, pipe["outer_pipe_d_out"] / 2
        a_fluid = math.pi * (r_ii**2 + r_oi**2 - r_io**2)
        a_pipe = math.pi * (r_io**2 - r_ii**2 + r_oo**2 - r_oi**2)
        # target as documented in concentric_tube_volumes: annulus-side convection on the outer pipe's inner
        # surface plus conduction through the outer pipe wall
        conv_t = 1.0 / (bhe.h_f_a_in * (2 * math.pi * r_oi))
        pipe_t = math.log(r_oo / r_oi) / (2 * math.pi * pipe["conductivity_outer"])
    else:
        r_i, r_o = pipe["inner_diameter"] / 2, pipe["outer_diameter"] / 2
        a_fluid = 4 * math.pi * r_i**2
        a_pipe = 4 * math.pi * (r_o**2 - r_i**2)
        # target as documented in u_tube_volumes (the method's own surface term n*pi*(2 r_in)^2 is kept as is)
        conv_t = 1.0 / (bhe.h_f * (4 * math.pi * (2 * r_i) ** 2))
        pipe_t = math.log(r_o / r_i) / (4 * 2 * math.pi * pipe["conductivity"])
    ri_p, ro_p = eq.pipe.r_in, eq.pipe.r_out
    e_f = abs(2 * math.pi * ri_p**2 - a_fluid) / a_fluid
    e_p = abs(2 * math.pi * (ro_p**2 - ri_p**2) - a_pipe) / a_pipe
    info["fluid_volume_rel_err"] = e_f
    info["pipe_volume_rel_err"] = e_p
    if e_f > 1e-12:
        bad("fluid-volume-not-preserved", f"2 pi r_in'^2 = {2 * math.pi * ri_p**2} vs original fluid area {a_fluid}")
    if e_p > 1e-12:
        bad("pipe-wall-volume-not-preserved", f"2 pi (r_out'^2 - r_in'^2) = {2 * math.pi * (ro_p**2 - ri_p**2)} vs original {a_pipe}")
    # the equivalent tube must be what the radial model reads: attributes consistent with pygfunction's copies
    if abs(eq.r_in - ri_p) > 1e-15 or abs(eq.r_out - ro_p) > 1e-15:
        bad("equivalent-tube-radii-inconsistent", f"pipe.r_in/out {ri_p}/{ro_p} vs pygfunction r_in/out {eq.r_in}/{eq.r_out}")
    # R_fp of the equivalent tube, recomputed from its own convection coefficient and wall
    r_f = 1.0 / (eq.h_f * 2 * math.pi * ri_p)
    r_p = math.log(ro_p / ri_p) / (2 * math.pi * eq.pipe.k)
    rfp = r_f + r_p
    target = conv_t + pipe_t
    e_r = abs(rfp - target) / target
    info["rfp_rel_err"] = e_r
    if abs(eq.R_fp - rfp) > 1e-9 * rfp:
        bad("equivalent-tube-Rfp-stale", f"stored R_fp {eq.R_fp} vs recomputed {rfp}")
    if e_r > 1e-3:  # 0.1 %, the statement's own resistance tolerance; brentq's 1e-6 absolute tolerance on k gives <= 4e-5
        # classifier of the known finding: the pipe-conductivity solve ended on an end of the DOCUMENTED bracket [k0/100, 10 k0]
        # and the objective really has no sign change inside that bracket (recomputed here: R_f' + ln(ro'/ri')/(2 pi k) - target)
        n = 2
        k0 = math.log(ro_p / ri_p) / (2 * math.pi * n * pipe_t)
        on_end = min(abs(eq.pipe.k - k0 / 100.0) / (k0 / 100.0), abs(eq.pipe.k - k0 * 10.0) / (k0 * 10.0)) < 1e-9

        def objective(kk):
            return r_f + math.log(ro_p / ri_p) / (2 * math.pi * kk) - target

        no_root = (objective(k0 / 100.0) > 0) == (objective(k0 * 10.0) > 0)
        if on_end and no_root:
            mech = "Rfp-target-missed-pipe-k-on-bracket-end"
        elif on_end:
            mech = "Rfp-target-missed-although-a-root-lies-in-the-documented-bracket"
        else:
            mech = "Rfp-target-missed"
        bad(mech, f"R_fp' {rfp} vs target {target} (rel {e_r:.3g}); pipe k' {eq.pipe.k}, initial {k0}", pipe_k=eq.pipe.k)
    # effective borehole resistance
    rb = bhe.calc_effective_borehole_resistance()
    rb_eq = eq.calc_effective_borehole_resistance()
    e_b = abs(rb_eq - rb) / rb
    info["rb_rel_err"] = e_b
    info["grout_k_eq"] = eq.grout.k
    if e_b > 1e-3:
        on_end = abs(eq.grout.k - 0.01) < 1e-12 or abs(eq.grout.k - 7.0) < 1e-12
        # classifier of the known finding: grout k on an end of the documented bracket AND the solve's objective is blind to grout k
        # (the equivalent tube's Rb* does not move when only k_g / grout.k are changed, as the tool's objective does)
        kg_saved = (eq.k_g, eq.grout.k)
        probe = []
        for kk in (0.4, 3.0):
            eq.k_g = kk
            eq.grout.k = kk
            probe.append(eq.calc_effective_borehole_resistance())
        eq.k_g, eq.grout.k = kg_saved
        blind = abs(probe[0] - probe[1]) <= 1e-12 * abs(probe[0])
        mech = "Rb-not-matched-grout-k-on-bracket-end" if (on_end and blind) else ("Rb-not-matched-grout-k-on-bracket-end-but-objective-responds" if on_end else "Rb-not-matched")
        bad(mech, f"Rb*' {rb_eq} vs Rb* {rb} (rel {e_b:.3g}); equivalent grout k {eq.grout.k}", grout_k=eq.grout.k)
    # the original exchanger must be left untouched by the conversion
    return v, info


def run_shard(spec):
    g = rng(spec["seed"], PROP, spec["shard"])
    res = {"cases": 0, "viol": [], "nontrivial": [], "samples": [], "worst": {}, "arr": {}, "skipped": 0, "regimes": {"laminar": 0, "turbulent": 0}}
    for i in range(spec["n"]):
        arr = ["DOUBLEUTUBEPARALLEL", "DOUBLEUTUBESERIES", "COAXIAL", "SINGLEUTUBE"][(i + spec["shard"]) % 4] if g.random() < 0.93 else "SINGLEUTUBE"
        ph = GP.draw_phys(g, arr)
        if arr != "SINGLEUTUBE" and g.random() < 0.2:
            # thin-walled tubes (copper, stainless, thin plastic): walls of 0.4-1.2 mm, any conductivity class
            t_thin = float(round(g.uniform(0.0004, 0.0012), 5))
            k_thin = float(g.choice([0.4, 15.0, 50.0, 380.0]))
            pp = ph["pipe"]
            if arr == "COAXIAL":
                pp["inner_pipe_d_in"] = float(round(pp["inner_pipe_d_out"] - 2 * t_thin, 5))
                pp["outer_pipe_d_in"] = float(round(pp["outer_pipe_d_out"] - 2 * t_thin, 5))
                pp["conductivity_inner"] = k_thin
                pp["conductivity_outer"] = k_thin
            else:
                pp["inner_diameter"] = float(round(pp["outer_diameter"] - 2 * t_thin, 5))
                pp["conductivity"] = k_thin
            res["thin_walled"] = res.get("thin_walled", 0) + 1
        H = float(round(g.uniform(30, 300), 1))
        flow = float(round(10 ** g.uniform(math.log10(0.02), math.log10(2.0)), 4))
        case = {"phys": ph, "H": H, "flow": flow}
        try:
            bhe = GP.make_bhe(ph, H, flow)
        except Exception:
            res["skipped"] += 1
            continue
        before = (bhe.grout.k, copy.deepcopy(bhe.pipe.k), bhe.calc_effective_borehole_resistance())
        try:
            eq = bhe.to_single()
        except Exception as e:  # noqa: BLE001
            res["viol"].append({"mechanism": f"to_single-raised:{type(e).__name__}", "message": str(e)[:200], "case": case})
            continue
        v, info = judge(bhe, eq, ph)
        after = (bhe.grout.k, bhe.pipe.k, bhe.calc_effective_borehole_resistance())
        if before[0] != after[0] or before[1] != after[1] or abs(before[2] - after[2]) > 1e-15:
            v.append({"mechanism": "conversion-mutates-the-original", "message": f"grout k/pipe k/Rb before {before} after {after}"})
        res["cases"] += 1
        res["arr"][arr] = res["arr"].get(arr, 0) + 1
        re = bhe.compute_reynolds(flow if arr != "DOUBLEUTUBEPARALLEL" else flow / 2, (ph["pipe"].get("inner_diameter") or ph["pipe"]["inner_pipe_d_in"]) / 2, bhe.fluid)
        res["regimes"]["laminar" if re < 2300 else "turbulent"] += 1
        for kk, vv in info.items():
            if kk.endswith("rel_err"):
                res["worst"][kk] = max(res["worst"].get(kk, 0.0), vv)
        if arr != "SINGLEUTUBE":
            res["nontrivial"].append([arr, H, flow, ph["borehole"]["diameter"], ph["grout"]["conductivity"]])
        for x in v:
            res["viol"].append({**x, "case": case})
        # the same pipe and borehole again in the same process with another flow, fluid, roughness or double-U connection (a flow sweep
        # over one catalogue pipe): every conversion must stand on its own inputs
        if arr != "SINGLEUTUBE":
            for _sib in range(2):
                ph2 = copy.deepcopy(ph)
                what = str(g.choice(["flow", "fluid", "roughness", "connection"]))
                flow2 = flow
                if what == "flow":
                    flow2 = float(round(min(2.0, max(0.02, flow * 10 ** g.uniform(-1, 1))), 4))
                elif what == "fluid":
                    ph2["fluid"] = GP.draw_fluid(g)
                elif what == "roughness":
                    ph2["pipe"]["roughness"] = ph["pipe"]["roughness"] * float(g.choice([0.1, 10.0, 100.0]))
                elif arr.startswith("DOUBLEUTUBE"):
                    ph2["pipe"]["arrangement"] = "DOUBLEUTUBESERIES" if arr == "DOUBLEUTUBEPARALLEL" else "DOUBLEUTUBEPARALLEL"
                else:
                    flow2 = float(round(min(2.0, max(0.02, flow * 3.0)), 4))
                case2 = {"phys": ph2, "H": H, "flow": flow2, "sibling_of_previous_case_changed": what}
                try:
                    bhe2 = GP.make_bhe(ph2, H, flow2)
                    eq2 = bhe2.to_single()
                except Exception:  # noqa: BLE001 - an unusable variation is not this lane's subject
                    res["skipped"] += 1
                    continue
                v2, info2 = judge(bhe2, eq2, ph2)
                res["sibling_conversions"] = res.get("sibling_conversions", 0) + 1
                for kk, vv in info2.items():
                    if kk.endswith("rel_err"):
                        res["worst"][kk] = max(res["worst"].get(kk, 0.0), vv)
                for x in v2:
                    res["viol"].append({**x, "case": case2})
        if len(res["samples"]) < 1 and arr != "SINGLEUTUBE":
            res["samples"].append({"case": case, "info": info, "eq_r_in": eq.pipe.r_in, "eq_r_out": eq.pipe.r_out, "eq_pipe_k": eq.pipe.k})
    return res


def check(tier, seed):
    n = {"quick": 320, "thorough": 5600}[tier]
    specs = [{"seed": seed, "shard": s, "n": n // NSHARDS} for s in range(NSHARDS)]
    results = run_pool("vf.props.C15", specs, timeout=3600)
    rep = Report(PROP)
    rep.rule = (
        "case = exchanger (double-U parallel/series, coaxial, some single-U) with geometry that fits, r_b 55-110 mm, grout k 0.6-2.8, "
        "five fluids, flow 0.02-2 L/s (laminar to turbulent), converted by the real to_single(); each followed by two conversions of the same pipe and "
        "borehole with another flow, fluid, roughness or double-U connection in the same process; non-trivial = non-single-U case; "
        "distinct by inputs."
    )
    regimes = {"laminar": 0, "turbulent": 0}
    for r in results:
        if "_harness_error" in r:
            rep.inconclusive.append("shard failed: " + r["_harness_error"][:300])
            continue
        rep.evaluations += r["cases"]
        rep.count("skipped_unusable_exchanger", r["skipped"])
        rep.count("thin_walled_tubes", r.get("thin_walled", 0))
        rep.count("sibling_conversions_same_pipe_other_flow_fluid_roughness_connection", r.get("sibling_conversions", 0))
        rep.evaluations += r.get("sibling_conversions", 0)
        for k2, v2 in r["worst"].items():
            rep.worst("worst_" + k2, v2)
        for k2, v2 in r["arr"].items():
            rep.count("cases_" + k2, v2)
        for k2 in regimes:
            regimes[k2] += r["regimes"][k2]
        for nt in r["nontrivial"]:
            rep.nontrivial(nt)
        for s in r["samples"]:
            rep.sample(s)
        for v in r["viol"]:
            rep.violate(v["mechanism"], v["message"], {"case": v["case"]})
    rep.extra["flow_regimes_of_inner_pipe"] = regimes
    rep.assumptions = [
        "resistance target = resist_conv + resist_pipe exactly as the method documents it (u_tube_volumes / concentric_tube_volumes), recomputed by the harness from the input dimensions",
        "Rb* of both exchangers from pygfunction's multipole model",
    ]
    return rep


def replay(w):
    case = w["witness"]["case"]
    bhe = GP.make_bhe(case["phys"], case["H"], case["flow"])
    eq = bhe.to_single()
    v, info = judge(bhe, eq, case["phys"])
    rep = Report(PROP)
    rep.evaluations = 1
    rep.nontrivial_count = 2
    rep.rule = "replay of one witness"
    rep.sample({"case": case, "info": info})
    for x in v:
        rep.violate(x["mechanism"], x["message"], {"case": case})
    return rep
