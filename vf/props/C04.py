"""C04 - polygon-constrained fields lie inside the property, outside no-go zones, nothing clearly inside is dropped, lists sorted.

Monitor: wrapper on the name `remove_cutout` inside ghedesigner.domains (every call made by polygonal_land_constraint is
         recorded: input field, boundaries, flags, output) + the final nested domain of the user's design object.
Oracle : vf.oracle.polygon (crossing number + documented distance-sum edge rule, tolerance 0.01, guard band), vectorised in floats
         and cross-checked against the exact rational classifier on a sample in every run.
"""
from __future__ import annotations

import math

import numpy as np

from vf.common import REPO, Report, rng
from vf.gen import lots as GLOT
from vf.oracle import polygon as O
from vf.pool import run_pool
from vf.props.C03 import window_ok

PROP = "C04"
NSHARDS = 16
TOL = 0.01


class CutTap:
    def __init__(self):
        import ghedesigner.domains as dom

        self.dom = dom
        self.orig = dom.remove_cutout
        self.calls = []
        self.hits = 0
        tap = self

        def remove_cutout(coordinates, boundaries, *a_, **kw_):
            out = tap.orig(coordinates, boundaries, *a_, **kw_)
            remove_inside = kw_.get("remove_inside", a_[0] if len(a_) > 0 else True)
            keep_contour = kw_.get("keep_contour", a_[1] if len(a_) > 1 else True)
            on_edge_tolerance = kw_.get("on_edge_tolerance", a_[2] if len(a_) > 2 else 0.01)
            tap.hits += 1
            tap.calls.append({"in": list(coordinates), "boundaries": boundaries, "remove_inside": remove_inside, "keep_contour": keep_contour,
                              "tol": on_edge_tolerance, "out": list(out)})
            return out

        dom.remove_cutout = remove_cutout

    def pop(self):
        c = self.calls
        self.calls = []
        return c

    def uninstall(self):
        self.dom.remove_cutout = self.orig


def read_csv_polygon(name):
    p = REPO / "ghedesigner" / "tests" / "test_data" / name
    rows = [r for r in p.read_text().split("\n")[1:] if r.strip()]
    return [tuple(float(x) for x in r.split(",")[:2]) for r in rows]


def draw_case(g, idx):
    for _ in range(100):
        size = float(g.uniform(30, 110))
        n_out = int(g.choice([1, 1, 2, 3]))
        outlines = []
        mode = int(g.integers(0, 3))
        for j in range(n_out):
            origin = (0.0, 0.0) if (j == 0 and g.random() < 0.6) else (float(round(g.uniform(0, size * 0.8), 1)), float(round(g.uniform(0, size * 0.8), 1)))
            s = size * (1.0 if j == 0 else float(g.uniform(0.4, 0.9)))
            if idx % 6 == 4 and j == 0:
                # a plain axis-aligned rectangular lot, usually set back from one or both axes (any start corner; closing corner repeated or not)
                x0, y0 = [(0.0, 0.0), (float(round(g.uniform(3, 25), 1)), 0.0), (0.0, float(round(g.uniform(3, 25), 1))),
                          (float(round(g.uniform(3, 25), 1)), float(round(g.uniform(3, 25), 1)))][int(g.integers(0, 4))]
                w_, h_ = float(round(s * g.uniform(0.6, 1.0), 1)), float(round(s * g.uniform(0.5, 1.0), 1))
                poly = [(x0, y0), (x0 + w_, y0), (x0 + w_, y0 + h_), (x0, y0 + h_)]
                r_ = int(g.integers(0, 4))
                poly = poly[r_:] + poly[:r_]
                if g.random() < 0.3:
                    poly = poly + [poly[0]]
            elif mode == 0:
                poly = GLOT.convex(g, s, origin=origin)
            elif mode == 1:
                poly = GLOT.star(g, s, origin=origin)
            else:
                poly = GLOT.orthogonal(g, s, origin=origin)
            if g.random() < 0.5:
                poly = poly[::-1]
            outlines.append([list(p) for p in poly])
        max_x = max(p[0] for o in outlines for p in o)
        max_y = max(p[1] for o in outlines for p in o)
        nogo = []
        for _k in range(int(g.choice([0, 1, 1, 2, 3]))):
            s = size * float(g.uniform(0.1, 0.35))
            origin = (float(g.uniform(0, max(0.1, max_x - s * 0.5))), float(g.uniform(0, max(0.1, max_y - s * 0.5))))
            poly = GLOT.convex(g, s, origin=origin) if g.random() < 0.6 else GLOT.orthogonal(g, s, origin=origin)
            if g.random() < 0.5:
                poly = poly[::-1]
            nogo.append([list(p) for p in poly])
        big = max(max_x, max_y)
        if mode == 2 and g.random() < 0.7:
            # spacing that is a divisor of the lot's lattice pitch: grid lines coincide with polygon edges
            b_min = big / float(g.integers(6, 15))
        else:
            b_min = float(g.uniform(big / 14.0, big / 5.0))
        b_max_x = b_min * float(g.uniform(1.0, 3.0))
        b_max_y = b_min * float(g.uniform(1.0, 3.0))
        ok = all(window_ok(L, b_min, bm, 2) for L in (max_x, max_y) for bm in (b_max_x, b_max_y))
        if not ok:
            continue
        return {"property": outlines, "nogo": nogo, "b_min": b_min, "b_max_x": b_max_x, "b_max_y": b_max_y, "shape": "rectangle-set-back" if idx % 6 == 4 else ["convex", "star", "orthogonal"][mode]}
    raise RuntimeError("generator failed")


def repo_case():
    prop = [list(p) for p in read_csv_polygon("polygon_property_boundary.csv")]
    bld = [list(p) for p in read_csv_polygon("polygon_building.csv")]
    ng1 = [list(p) for p in read_csv_polygon("polygon_no_go_zone1.csv")]
    return {"property": [prop], "nogo": [bld, ng1], "b_min": 5.0, "b_max_x": 25.0, "b_max_y": 25.0, "shape": "repo-test-data"}


def get_domain(case):
    from ghedesigner.manager import GHEManager

    m = GHEManager()
    # the container form is not part of the polygon: vertices as lists or tuples, whole numbers as ints, a single outline bare or in a list
    form = case.get("form", 0)

    def vtx(p):
        x, y = (int(p[0]), int(p[1])) if form in (2, 3) and float(p[0]).is_integer() and float(p[1]).is_integer() else (p[0], p[1])
        return (x, y) if form in (1, 3) else [x, y]

    prop = [[vtx(p) for p in o] for o in case["property"]]
    nogo = [[vtx(p) for p in o] for o in case["nogo"]]
    if form == 4 and len(prop) == 1:
        prop = prop[0]
    if form == 4 and len(nogo) == 1:
        nogo = nogo[0]
    m.set_geometry_constraints_bi_rectangle_constrained(
        b_min=case["b_min"], b_max_x=case["b_max_x"], b_max_y=case["b_max_y"], property_boundary=prop, no_go_boundaries=nogo
    )
    m.set_design(flow_rate=0.5, flow_type_str="BOREHOLE")
    return [list(x) for x in m._design.coordinates_domain_nested]


def classify_union(polys, pts):
    """per point: in_any, edge_any, guard_any, and distance to the nearest boundary of any polygon."""
    n = len(pts)
    in_any = np.zeros(n, bool)
    edge_any = np.zeros(n, bool)
    guard_any = np.zeros(n, bool)
    clear_in = np.zeros(n, bool)
    dmin = np.full(n, np.inf)
    for poly in polys:
        cl, _ = O.classify_many(poly, pts, TOL)
        d = O.boundary_dist_many(poly, pts)
        in_any |= cl == 1
        edge_any |= cl == 0
        guard_any |= cl == 2
        clear_in |= (cl == 1) & (d >= 0.5)
        dmin = np.minimum(dmin, d)
    return in_any, edge_any, guard_any, clear_in, dmin


def judge_case(case, calls, final):
    """Returns violations and stats.  `calls` are the recorded remove_cutout calls, `final` the design's nested domain."""
    import ghedesigner.domains as dom

    v = []
    st = {"points_judged": 0, "near_boundary": 0, "removed": 0, "kept": 0, "guard": 0, "selfcheck_mismatch": 0, "selfcheck_n": 0}

    def bad(mech, msg, **kw):
        if len(v) < 12:
            v.append({"mechanism": mech, "message": msg, **kw})

    prop_polys = case["property"]
    nogo_polys = case["nogo"]
    max_x = max(p[0] for o in prop_polys for p in o)
    max_y = max(p[1] for o in prop_polys for p in o)
    grid_nested, _ = dom.bi_rectangle_nested(max_x, max_y, case["b_min"], case["b_max_x"], case["b_max_y"])
    # --- replay the chain call by call
    ci = 0
    expected_lists = []
    for li, grid_list in enumerate(grid_nested):
        survivors = []
        for fi, gridf in enumerate(grid_list):
            if ci >= len(calls):
                bad("cut-not-applied-to-every-grid-field", f"list {li} field {fi}: no recorded cut (only {len(calls)} calls)")
                break
            c = calls[ci]
            ci += 1
            if [tuple(p) for p in c["in"]] != [tuple(p) for p in gridf] or c["remove_inside"] is not False:
                bad("property-cut-not-fed-with-the-grid-field", f"list {li} field {fi}: first cut input differs from the bi-rectangle grid field or flags wrong ({c['remove_inside']})")
                continue
            pts = np.asarray(gridf, dtype=float).reshape(-1, 2)
            in_p, ed_p, gd_p, clear_p, dmin_p = classify_union(prop_polys, pts)
            kept1 = {tuple(p) for p in c["out"]}
            after_prop = c["out"]
            after = after_prop
            if len(after_prop) > 0 and len(nogo_polys) > 0:
                if ci >= len(calls) or calls[ci]["remove_inside"] is not True or [tuple(p) for p in calls[ci]["in"]] != [tuple(p) for p in after_prop]:
                    bad("no-go-cut-missing", f"list {li} field {fi}: no second cut on the surviving boreholes")
                    continue
                after = calls[ci]["out"]
                ci += 1
            kept = {tuple(p) for p in after}
            if nogo_polys:
                in_n, ed_n, gd_n, _, dmin_n = classify_union(nogo_polys, pts)
            else:
                in_n = ed_n = gd_n = np.zeros(len(pts), bool)
                dmin_n = np.full(len(pts), np.inf)
            for k, p in enumerate(map(tuple, gridf)):
                is_kept = p in kept
                st["points_judged"] += 1
                st["kept" if is_kept else "removed"] += 1
                near = min(dmin_p[k], dmin_n[k]) < 0.5
                st["near_boundary"] += 1 if near else 0
                if is_kept:
                    if not gd_p[k] and not (in_p[k] or ed_p[k]):
                        bad("kept-borehole-outside-property", f"list {li} field {fi}: {p} is kept but lies outside every property outline (distance {dmin_p[k]:.3g} m)", point=list(p))
                    if not gd_n[k] and (in_n[k] or ed_n[k]):
                        bad("kept-borehole-in-no-go-zone", f"list {li} field {fi}: {p} is kept but lies inside/on a no-go polygon (boundary distance {dmin_n[k]:.3g} m)", point=list(p))
                else:
                    clearly_ok = clear_p[k] and (not in_n[k]) and (not ed_n[k]) and (not gd_n[k]) and dmin_n[k] >= 0.5
                    if clearly_ok:
                        bad("clearly-inside-borehole-dropped", f"list {li} field {fi}: {p} is {dmin_p[k]:.3g} m inside the property and {dmin_n[k]:.3g} m from any no-go zone but was dropped", point=list(p))
                if gd_p[k] or gd_n[k]:
                    st["guard"] += 1
            if len(after) > 0:
                survivors.append(list(after))
        expected_lists.append(sorted(survivors, key=len))
    if ci != len(calls):
        bad("unexpected-extra-cuts", f"{len(calls) - ci} recorded remove_cutout calls beyond the grid fields")
    # --- final domain: ordering and identity with the surviving fields
    if len(final) != len(expected_lists):
        bad("final-domain-list-count", f"{len(final)} lists, expected {len(expected_lists)}")
    for li, fl in enumerate(final):
        counts = [len(f) for f in fl]
        if any(b < a for a, b in zip(counts, counts[1:])):
            bad("list-not-sorted-by-count", f"list {li}: counts {counts}")
        if li < len(expected_lists):
            exp = expected_lists[li]
            if [[tuple(p) for p in f] for f in fl] != [[tuple(p) for p in f] for f in exp]:
                bad("final-domain-differs-from-surviving-fields", f"list {li}: the design's fields are not the cut fields in stable count order")
        # end-to-end: every borehole of every final field vs property / no-go (independent of the recorded chain)
        for fi, f in enumerate(fl):
            pts = np.asarray(f, dtype=float).reshape(-1, 2)
            in_p, ed_p, gd_p, _, dmin_p = classify_union(prop_polys, pts)
            okp = in_p | ed_p | gd_p
            if not np.all(okp):
                k = int(np.argmin(okp))
                bad("final-field-borehole-outside-property", f"list {li} field {fi}: {tuple(pts[k])} outside every outline", point=pts[k].tolist())
            if nogo_polys:
                in_n, ed_n, gd_n, _, _ = classify_union(nogo_polys, pts)
                badn = (in_n | ed_n) & ~gd_n
                if np.any(badn):
                    k = int(np.argmax(badn))
                    bad("final-field-borehole-in-no-go-zone", f"list {li} field {fi}: {tuple(pts[k])} inside/on a no-go polygon", point=pts[k].tolist())
    # --- oracle self-check: vectorised float classifier vs exact rational classifier on a sample
    if grid_nested and grid_nested[-1]:
        sample = np.asarray(grid_nested[-1][-1], dtype=float).reshape(-1, 2)[:40]
        for poly in (prop_polys + nogo_polys)[:3]:
            cl, _ = O.classify_many(poly, sample, TOL)
            for k, p in enumerate(sample):
                ex = O.classify(poly, (float(p[0]), float(p[1])), TOL)
                st["selfcheck_n"] += 1
                if ex is None or cl[k] == 2:
                    continue
                if ex != cl[k]:
                    st["selfcheck_mismatch"] += 1
    return v, st


def run_shard(spec):
    g = rng(spec["seed"], PROP, spec["shard"])
    tap = CutTap()
    res = {"cases": 0, "viol": [], "nontrivial": [], "samples": [], "stats": {}, "shapes": {}, "skipped": 0}
    for i in range(spec["n"]):
        idx = spec["shard"] * 1000 + i
        case = repo_case() if (spec["shard"] == 0 and i == 0) else draw_case(g, idx)
        case["form"] = i % 5  # lists / tuples / ints where whole / int tuples / single outlines bare
        res["stats"]["container_form_%d" % case["form"]] = res["stats"].get("container_form_%d" % case["form"], 0) + 1
        tap.pop()
        try:
            final = get_domain(case)
        except ValueError as e:
            if "not enough values to unpack" in str(e):
                res["skipped"] += 1  # a list without any surviving field: degenerate input for the generator, not judged
                continue
            res["viol"].append({"mechanism": "design-construction-raised:ValueError", "message": str(e)[:200], "case": case})
            continue
        except Exception as e:  # noqa: BLE001
            res["viol"].append({"mechanism": f"design-construction-raised:{type(e).__name__}", "message": str(e)[:200], "case": case})
            continue
        calls = tap.pop()
        v, st = judge_case(case, calls, final)
        res["cases"] += 1
        res["shapes"][case["shape"]] = res["shapes"].get(case["shape"], 0) + 1
        for k2, v2 in st.items():
            res["stats"][k2] = res["stats"].get(k2, 0) + v2
        if st["removed"] >= 1 and st["kept"] >= 1 and st["near_boundary"] >= 1:
            res["nontrivial"].append([case["shape"], round(case["b_min"], 6), len(case["property"]), len(case["nogo"]), case["property"][0][0]])
        for x in v:
            res["viol"].append({**x, "case": case})
        if not res["samples"]:
            res["samples"].append({"case": case, "stats": st, "lists": len(final), "fields": sum(len(f) for f in final)})
    res["hits"] = tap.hits
    tap.uninstall()
    return res


def check(tier, seed):
    n = {"quick": 96, "thorough": 1600}[tier]
    specs = [{"seed": seed, "shard": s, "n": n // NSHARDS} for s in range(NSHARDS)]
    results = run_pool("vf.props.C04", specs, timeout=5400)
    rep = Report(PROP)
    rep.rule = (
        "case = 1..3 property outlines (convex / star-shaped / orthogonal L-U-staircase, both orientations, at the origin or offset, "
        "overlapping or disjoint) + 0..3 no-go polygons (anywhere) + spacing window (for orthogonal lots often a divisor of the lot's lattice "
        "pitch so that grid lines coincide with edges) + the repository's test polygons; every recorded remove_cutout call and every field of "
        "the design's nested domain is judged. non-trivial = case in which the cut removed >= 1 and kept >= 1 borehole and >= 1 grid point "
        "lies within 0.5 m of a boundary; distinct by inputs."
    )
    hits = 0
    for r in results:
        if "_harness_error" in r:
            rep.inconclusive.append("shard failed: " + r["_harness_error"][:300])
            continue
        rep.evaluations += r["cases"]
        hits += r["hits"]
        rep.count("skipped_no_surviving_field_in_a_list", r["skipped"])
        for k2, v2 in r["stats"].items():
            rep.count(k2, v2)
        for k2, v2 in r["shapes"].items():
            rep.count("cases_" + k2, v2)
        for nt in r["nontrivial"]:
            rep.nontrivial(nt)
        for s in r["samples"]:
            rep.sample(s)
        for v in r["viol"]:
            rep.violate(v["mechanism"], v["message"], {"case": v["case"], "point": v.get("point")})
    rep.extra["remove_cutout_wrapper_hits"] = hits
    if hits == 0:
        rep.inconclusive.append("remove_cutout wrapper never reached")
    if rep.extra.get("selfcheck_mismatch", 0) > 0:
        rep.inconclusive.append("vectorised classifier disagrees with the exact classifier")
    rep.assumptions = [
        "documented edge rule: distance-sum excess < 0.01; points with excess in [0.005, 0.02] are not judged (guard band)",
        "'clearly inside' = inside an outline and >= 0.5 m from its boundary; 'clearly outside no-go' = outside every no-go polygon by >= 0.5 m",
    ]
    return rep


def replay(w):
    case = w["witness"]["case"]
    tap = CutTap()
    final = get_domain(case)
    calls = tap.pop()
    tap.uninstall()
    v, st = judge_case(case, calls, final)
    rep = Report(PROP)
    rep.evaluations = 1
    rep.nontrivial_count = 2
    rep.rule = "replay of one witness"
    rep.sample({"case": case, "stats": st})
    for x in v:
        rep.violate(x["mechanism"], x["message"], {"case": case})
    return rep
