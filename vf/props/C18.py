"""C18 - command-line exit status and validation verdict reflect the outcome.

Events : real subprocesses of the installed console entry (`python -m ghedesigner.manager` with /repo first on the path, and the
         `ghedesigner` script): exit status, stderr, files present in the output directory.
Oracle : independent per-section schema validation (vf.props.C17.independent_validate) gives the expected verdict; expected status:
         non-zero iff invalid or unsupported --convert or no output directory or no output files; zero only with all outputs present
         (or a valid file with --validate-only).
"""
from __future__ import annotations

import copy
import json
import os
import shutil
import subprocess
import sys
import tempfile
from pathlib import Path

import numpy as np

from vf.common import REPO, TMP, Report, rng
from vf.gen import loads as GL
from vf.pool import run_pool
from vf.props.C17 import independent_validate

PROP = "C18"
NSHARDS = 16
OUTPUTS = ["SimulationSummary.txt", "SimulationSummary.json", "TimeDependentValues.csv", "BoreFieldData.csv", "Loadings.csv", "Gfunction.csv"]


def base_inputs():
    """Small valid inputs (demo-style) for each pipe family and several design methods; cheap to run (12 months, tiny land)."""
    loads = GL.make_loads({"family": "sinus", "seed": 5, "scale": 0.12})
    common = {
        "version": "1.5",
        "fluid": {"fluid_name": "WATER", "concentration_percent": 0.0, "temperature": 20},
        "grout": {"conductivity": 1.0, "rho_cp": 3901000},
        "soil": {"conductivity": 2.0, "rho_cp": 2343493, "undisturbed_temp": 18.3},
        "borehole": {"buried_depth": 2.0, "diameter": 0.14},
        "simulation": {"num_months": 12},
        "design": {"flow_rate": 0.5, "flow_type": "BOREHOLE", "max_eft": 35.0, "min_eft": 5.0, "continue_if_design_unmet": True},
        "loads": {"ground_loads": loads},
    }
    single = {"inner_diameter": 0.03404, "outer_diameter": 0.04216, "shank_spacing": 0.01856, "roughness": 1e-06, "conductivity": 0.4,
              "rho_cp": 1542000, "arrangement": "SINGLEUTUBE"}
    coax = {"inner_pipe_d_in": 0.0442, "inner_pipe_d_out": 0.05, "outer_pipe_d_in": 0.0974, "outer_pipe_d_out": 0.11, "roughness": 1e-06,
            "conductivity_inner": 0.4, "conductivity_outer": 0.4, "rho_cp": 1542000, "arrangement": "COAXIAL"}
    geos = {
        "NEARSQUARE": {"length": 12, "b": 5.0, "max_height": 135.0, "min_height": 60.0, "method": "NEARSQUARE"},
        "RECTANGLE": {"length": 15, "width": 10, "b_min": 5.0, "b_max": 7.5, "max_height": 135.0, "min_height": 60.0, "method": "RECTANGLE"},
        "BIRECTANGLE": {"length": 15, "width": 10, "b_min": 5.0, "b_max_x": 7.5, "b_max_y": 7.5, "max_height": 135.0, "min_height": 60.0, "method": "BIRECTANGLE"},
        "BIZONEDRECTANGLE": {"length": 15, "width": 15, "b_min": 5.0, "b_max_x": 7.5, "b_max_y": 7.5, "max_height": 135.0, "min_height": 60.0, "method": "BIZONEDRECTANGLE"},
        "BIRECTANGLECONSTRAINED": {"b_min": 5.0, "b_max_x": 7.5, "b_max_y": 7.5, "max_height": 135.0, "min_height": 60.0,
                                   "property_boundary": [[[0, 0], [15, 0], [15, 15], [0, 15]]], "no_go_boundaries": [[[6, 6], [9, 6], [9, 9], [6, 9]]], "method": "BIRECTANGLECONSTRAINED"},
        "ROWWISE": {"perimeter_spacing_ratio": 0.8, "min_spacing": 8.0, "max_spacing": 12.0, "spacing_step": 0.5, "min_rotation": -90.0, "max_rotation": 0.0,
                    "rotate_step": 15.0, "max_height": 135.0, "min_height": 60.0, "property_boundary": [[0, 0], [30, 0], [30, 30], [0, 30]], "no_go_boundaries": [], "method": "ROWWISE"},
    }
    out = {}
    for gname, geo in geos.items():
        for pname, pipe in (("SINGLEUTUBE", single), ("COAXIAL", coax)):
            d = copy.deepcopy(common)
            d["pipe"] = copy.deepcopy(pipe)
            d["geometric_constraints"] = copy.deepcopy(geo)
            out[f"{gname}/{pname}"] = d
    return out


def case_variants(s: str, g):
    return [s.lower(), s.capitalize(), "".join(c.lower() if g.random() < 0.5 else c.upper() for c in s)]


def all_corruptions(base: dict, g):
    """Every single-field corruption of every section: missing key, wrong type, out of range, unknown enum; plus letter-case variants (valid)."""
    cases = []
    for sec in ("fluid", "grout", "soil", "pipe", "borehole", "simulation", "geometric_constraints", "design"):
        for key, val in base[sec].items():
            cases.append((f"missing:{sec}.{key}", ("del", sec, key, None)))
            wrong = "oops" if not isinstance(val, str) else 12345
            cases.append((f"wrongtype:{sec}.{key}", ("set", sec, key, wrong)))
            if isinstance(val, (int, float)) and not isinstance(val, bool):
                cases.append((f"negative:{sec}.{key}", ("set", sec, key, -abs(val) - 1.0)))
            if isinstance(val, list):
                cases.append((f"scalar-for-list:{sec}.{key}", ("set", sec, key, 3.0)))
            cases.append((f"null:{sec}.{key}", ("set", sec, key, None)))
    # optional keys (absent from the base inputs): null, wrong type and an acceptable value each
    for sec, key, good in (("design", "max_boreholes", 60), ("design", "continue_if_design_unmet", False), ("simulation", "timestep", "HYBRID"),
                           ("geometric_constraints", "perimeter_spacing_ratio", 0.8)):
        if key in base[sec]:
            continue
        if key == "perimeter_spacing_ratio" and str(base[sec].get("method", "")).upper() != "ROWWISE":
            continue
        cases.append((f"null-optional:{sec}.{key}", ("set", sec, key, None)))
        cases.append((f"wrongtype-optional:{sec}.{key}", ("set", sec, key, {"a": 1})))
        cases.append((f"valid-optional:{sec}.{key}", ("set", sec, key, good)))
    cases.append(("range:fluid.concentration_percent", ("set", "fluid", "concentration_percent", 75.0)))
    cases.append(("enum:fluid.fluid_name", ("set", "fluid", "fluid_name", "MERCURY")))
    cases.append(("enum:pipe.arrangement", ("set", "pipe", "arrangement", "TRIPLEUTUBE")))
    cases.append(("enum:geometric_constraints.method", ("set", "geometric_constraints", "method", "HEXAGON")))
    cases.append(("enum:design.flow_type", ("set", "design", "flow_type", "PERPIPE")))
    cases.append(("enum:simulation.timestep", ("set", "simulation", "timestep", "DAILY")))
    # more shapes of an unknown name: empty, a known name with a suffix / prefix, a name of another section
    for sec, key in (("fluid", "fluid_name"), ("pipe", "arrangement"), ("geometric_constraints", "method"), ("design", "flow_type"), ("simulation", "timestep")):
        known = str(base[sec].get(key, "HYBRID"))
        for tag, vv in (("empty", ""), ("suffix", known + "_"), ("prefix", "X" + known), ("other-section", "WATER" if sec != "fluid" else "COAXIAL")):
            cases.append((f"enum-{tag}:{sec}.{key}", ("set", sec, key, vv)))
    cases.append(("range:simulation.num_months", ("set", "simulation", "num_months", 0)))
    cases.append(("missing-section:loads", ("delsec", "loads", None, None)))
    cases.append(("missing-section:grout", ("delsec", "grout", None, None)))
    cases.append(("missing:version", ("delsec", "version", None, None)))
    cases.append(("loads:too-few", ("set", "loads", "ground_loads", [1.0] * 100)))
    cases.append(("loads:not-numbers", ("set", "loads", "ground_loads", ["a"] * 8760)))
    # one bad item in an otherwise intact series (JSON booleans are not numbers, although Python's bool is an int)
    gl0 = list(base["loads"]["ground_loads"])
    for tag, bad_item, pos in (("bool-true", True, 0), ("bool-false", False, 4380), ("string", "12.5", 8759), ("null", None, 17), ("list", [1.0], 3000)):
        gl1 = list(gl0)
        gl1[pos] = bad_item
        cases.append((f"loads:one-{tag}-item", ("set", "loads", "ground_loads", gl1)))
    cases.append(("loads:one-item-short", ("set", "loads", "ground_loads", gl0[:-1])))
    cases.append(("loads:missing-ground-loads", ("del", "loads", "ground_loads", None)))
    # valid variants: letter case of the five documented names, optional keys
    for sec, key in (("fluid", "fluid_name"), ("pipe", "arrangement"), ("geometric_constraints", "method"), ("design", "flow_type")):
        for vv in case_variants(str(base[sec][key]), g):
            cases.append((f"case:{sec}.{key}={vv}", ("set", sec, key, vv)))
    for vv in ["hybrid", "Hybrid", "HYBRID"]:
        cases.append((f"case:simulation.timestep={vv}", ("set", "simulation", "timestep", vv)))
    cases.append(("valid:extra-key", ("set", "design", "note", "x")))
    cases.append(("valid:max_boreholes", ("set", "design", "max_boreholes", 50)))
    return cases


def apply(base, op):
    d = copy.deepcopy(base)
    kind, sec, key, val = op
    if kind == "del":
        d[sec].pop(key, None)
    elif kind == "set":
        d[sec][key] = val
    elif kind == "delsec":
        d.pop(sec, None)
    return d


def run_cli(args, cwd, use_script=False, timeout=900):
    env = dict(os.environ)
    env["PYTHONPATH"] = f"{REPO}:" + env.get("PYTHONPATH", "")
    if use_script == "module":
        cmd = [sys.executable, "-m", "ghedesigner.manager"] + args
    elif use_script:
        cmd = ["/venv/bin/ghedesigner"] + args
    else:
        cmd = [sys.executable, "-c", "import sys; from ghedesigner.manager import run_manager_from_cli; sys.exit(run_manager_from_cli())"] + args
    try:
        p = subprocess.run(cmd, cwd=cwd, env=env, capture_output=True, text=True, timeout=timeout)
        return p.returncode, p.stderr[-600:], p.stdout[-300:]
    except subprocess.TimeoutExpired:
        return None, "timeout", ""


def run_shard(spec):
    g = rng(spec["seed"], PROP, spec["shard"])
    bases = base_inputs()
    names = sorted(bases)
    workdir = tempfile.mkdtemp(prefix="c18_", dir=str(TMP))
    res = {"runs": 0, "viol": [], "nontrivial": [], "samples": [], "classes": {}, "skipped_timeouts": 0}

    def record(cls):
        res["classes"][cls] = res["classes"].get(cls, 0) + 1

    def bad(mech, msg, case):
        res["viol"].append({"mechanism": mech, "message": msg, "case": case})

    try:
        # ---- this shard's slice of (base, corruption, mode)
        jobs = []
        for bi, bname in enumerate(names):
            corr = all_corruptions(bases[bname], g)
            for ci, (cname, op) in enumerate(corr):
                jobs.append((bname, cname, op))
        jobs = [j for k, j in enumerate(jobs) if k % spec["nshards"] == spec["shard"]]
        # ---- in-process verdict lane: the validator's verdict on EVERY corruption of this shard's slice (both tiers), against the
        # independent per-section validation; the CLI lanes below then exercise exit status and outputs on a sample (quick) or all (thorough)
        from ghedesigner.validate import validate_input_file
        import contextlib
        import io

        for k, (bname, cname, op) in enumerate(jobs):
            inst = apply(bases[bname], op)
            fpath = Path(workdir) / f"v_{k}.json"
            fpath.write_text(json.dumps(inst))
            errs = independent_validate(json.loads(fpath.read_text()))
            sink = io.StringIO()
            try:
                with contextlib.redirect_stderr(sink), contextlib.redirect_stdout(sink):
                    n_err = validate_input_file(fpath)
            except Exception as e:  # noqa: BLE001 - a validator that raises is not a verdict
                n_err = f"{type(e).__name__}: {e}"
            fpath.unlink()
            res["verdicts"] = res.get("verdicts", 0) + 1
            record(("valid" if not errs else "invalid") + ":in-process-verdict")
            res["nontrivial"].append([bname, cname, "validate_input_file"])
            case = {"base": bname, "corruption": cname, "mode": "validate_input_file", "expected_valid": not errs, "schema_errors": errs[:2]}
            if isinstance(n_err, str):
                # a validator that raises has not accepted the file (the CLI turns the exception into a non-zero exit, judged by the
                # CLI lanes); it is a wrong verdict only for a valid input
                record("in-process-verdict-by-exception")
                if not errs:
                    bad("valid-input-rejected:validator-raised", f"{bname} {cname}: {n_err[:200]}", case)
            elif errs and n_err == 0:
                bad("invalid-input-validated:" + cname.split(":")[0] + ":" + errs[0][0], f"{bname} {cname}: validate_input_file counts 0 errors although {errs[0]}", case)
            elif not errs and n_err != 0:
                bad("valid-input-rejected:in-process", f"{bname} {cname}: {n_err} errors: {sink.getvalue()[-200:]}", case)
        if spec["limit"]:
            sel = g.permutation(len(jobs))[: spec["limit"]]
            jobs = [jobs[i] for i in sorted(sel)]
        for k, (bname, cname, op) in enumerate(jobs):
            inst = apply(bases[bname], op)
            fpath = Path(workdir) / f"in_{k}.json"
            fpath.write_text(json.dumps(inst))
            errs = independent_validate(json.loads(fpath.read_text()))
            valid = not errs
            mode = ["validate-only", "plain", "plain-no-outdir"][k % 3] if not valid else "validate-only"
            case = {"base": bname, "corruption": cname, "mode": mode, "expected_valid": valid, "schema_errors": errs[:2]}
            outdir = Path(workdir) / f"out_{k}"
            if mode == "validate-only":
                rc, err, _ = run_cli(["--validate-only", str(fpath)], workdir, use_script=("module" if k % 5 == 1 else (k % 5 == 0)))
            elif mode == "plain":
                rc, err, _ = run_cli([str(fpath), str(outdir)], workdir)
            else:
                rc, err, _ = run_cli([str(fpath)], workdir)
            if rc is None:
                res["skipped_timeouts"] += 1
                continue
            res["runs"] += 1
            produced = [f for f in OUTPUTS if (outdir / f).exists()]
            record(("valid" if valid else "invalid") + ":" + mode)
            res["nontrivial"].append([bname, cname, mode])
            if not valid:
                if rc == 0:
                    sec = errs[0][0]
                    mech = "invalid-input-exits-zero" if sec != "loads" else "invalid-loads-section-accepted"
                    bad(mech + ":" + mode, f"{bname} {cname}: exit 0 although {errs[0]}", case)
                if produced:
                    bad("invalid-input-produced-output", f"{bname} {cname}: {produced}", case)
            else:
                if mode == "validate-only" and rc != 0:
                    bad("valid-input-rejected", f"{bname} {cname}: exit {rc}: {err[-200:]}", case)
            if mode == "plain-no-outdir" and rc == 0:
                bad("missing-output-directory-exits-zero", f"{bname} {cname}", case)
            try:
                fpath.unlink()
            except OSError:
                pass
            shutil.rmtree(outdir, ignore_errors=True)
        # ---- full valid runs and option handling (a few per shard)
        for r in range(spec["full_runs"]):
            bname = names[(spec["shard"] * spec["full_runs"] + r) % len(names)]
            inst = copy.deepcopy(bases[bname])
            fpath = Path(workdir) / f"valid_{r}.json"
            fpath.write_text(json.dumps(inst))
            outdir = Path(workdir) / f"vout_{r}"
            case = {"base": bname, "corruption": "none", "mode": "plain"}
            rc, err, so = run_cli([str(fpath), str(outdir)], workdir, use_script=(r % 2 == 1))
            if rc is None:
                res["skipped_timeouts"] += 1
                continue
            res["runs"] += 1
            produced = [f for f in OUTPUTS if (outdir / f).exists()]
            record("valid:plain")
            res["nontrivial"].append([bname, "full-run", r])
            if rc == 0 and len(produced) != len(OUTPUTS):
                bad("exit-zero-without-all-output-files", f"{bname}: produced {produced}", case)
            if rc != 0 and len(produced) == len(OUTPUTS):
                bad("exit-nonzero-although-outputs-written", f"{bname}: exit {rc}: {err[-200:]}", case)
            if rc != 0 and not produced:
                record("valid:plain:design-failed")
            summary = outdir / "SimulationSummary.json"
            if rc == 0 and summary.exists():
                # option handling on a real summary
                rc2, err2, _ = run_cli(["--convert", "IDF", str(summary)], workdir)
                res["runs"] += 1
                record("convert:IDF")
                idf = (outdir / "out.idf").exists()
                if (rc2 == 0) != idf:
                    bad("convert-idf-status-disagrees-with-file", f"exit {rc2}, out.idf exists: {idf}", {**case, "mode": "convert IDF"})
                rc3, err3, _ = run_cli(["--convert", "XYZ", str(summary)], workdir)
                res["runs"] += 1
                record("convert:unsupported")
                if rc3 == 0:
                    bad("unsupported-convert-exits-zero", "--convert XYZ exits 0", {**case, "mode": "convert XYZ"})
                rc4, err4, _ = run_cli(["-c", "idf", str(summary)], workdir)
                res["runs"] += 1
                record("convert:unsupported")
                if rc4 == 0 and not err4 and False:
                    pass
            # unsupported --convert value together with a valid input AND an output directory: still an unsupported option
            outdir_u = Path(workdir) / f"uout_{r}"
            for opt in (["--convert", "CSV"], ["-c", "EPJSON"]):
                rcu, erru, _ = run_cli([str(fpath), str(outdir_u)] + opt, workdir)
                if rcu is None:
                    res["skipped_timeouts"] += 1
                    continue
                res["runs"] += 1
                record("convert:unsupported-with-outdir")
                res["nontrivial"].append([bname, "unsupported-convert-with-outdir", opt[1]])
                if rcu == 0:
                    bad("unsupported-convert-exits-zero:with-output-directory", f"{bname}: {' '.join(opt)} with an output directory exits 0 (outputs: {[f for f in OUTPUTS if (outdir_u / f).exists()]})", {**case, "mode": " ".join(opt) + " with outdir"})
            shutil.rmtree(outdir_u, ignore_errors=True)
            # --convert IDF on something that is not a summary: no output can be produced
            rc5, err5, _ = run_cli(["--convert", "IDF", str(fpath)], workdir)
            res["runs"] += 1
            record("convert:IDF-on-non-summary")
            if rc5 == 0:
                bad("convert-idf-failure-exits-zero", "--convert IDF on an input file (not a summary) exits 0", {**case, "mode": "convert IDF on input file"})
            if not res["samples"]:
                res["samples"].append({"base": bname, "exit": rc, "outputs": produced})
            shutil.rmtree(outdir, ignore_errors=True)
    finally:
        shutil.rmtree(workdir, ignore_errors=True)
    return res


def check(tier, seed):
    limit = {"quick": 14, "thorough": 0}[tier]
    full = {"quick": 1, "thorough": 3}[tier]
    specs = [{"seed": seed, "shard": s, "nshards": NSHARDS, "limit": limit, "full_runs": full} for s in range(NSHARDS)]
    results = run_pool("vf.props.C18", specs, timeout=7200)
    rep = Report(PROP)
    rep.rule = (
        "validate_input_file on every single-field corruption of every base (both tiers) against independent per-section schema validation; invocations of the real CLI in subprocesses (the `ghedesigner` console script, `python -m ghedesigner.manager`, and the click command called from -c): every single-field corruption (missing key, wrong type, negative, unknown enum, out of "
        "range, missing section, bad loads) and every letter-case variant of the five documented names of 12 small demo-style inputs "
        "(6 methods x single-U/coaxial) [quick: a seeded sample of 14 per shard; thorough: all], run as --validate-only / plain / plain without "
        "output directory; plus full valid runs with output-file inventory, --convert IDF on the produced summary, --convert XYZ, -c idf and "
        "--convert IDF on a non-summary. non-trivial = every invocation; distinct by (base, corruption, mode)."
    )
    classes = {}
    for r in results:
        if "_harness_error" in r:
            rep.inconclusive.append("shard failed: " + r["_harness_error"][:300])
            continue
        rep.evaluations += r["runs"] + r.get("verdicts", 0)
        rep.count("in_process_validator_verdicts", r.get("verdicts", 0))
        rep.count("watchdog_timeouts_not_judged", r["skipped_timeouts"])
        for k2, v2 in r["classes"].items():
            classes[k2] = classes.get(k2, 0) + v2
        for nt in r["nontrivial"]:
            rep.nontrivial(nt)
        for s in r["samples"]:
            rep.sample(s)
        for v in r["viol"]:
            rep.violate(v["mechanism"], v["message"], {"case": v["case"]})
    rep.extra["invocation_classes"] = classes
    for need in ("valid:plain", "valid:validate-only", "invalid:validate-only", "invalid:plain"):
        if classes.get(need, 0) == 0:
            rep.inconclusive.append(f"no invocation of class {need} observed")
    rep.exhaustive = tier == "thorough"
    rep.assumptions = ["expected verdict from the harness's own per-section jsonschema validation against the repository's schema files (including loads.schema.json)"]
    return rep


def replay(w):
    rep = Report(PROP)
    rep.rule = "replay not supported for C18 witnesses; rerun with the same VERIF_SEED"
    rep.evaluations = 1
    rep.nontrivial_count = 2
    rep.sample(w.get("witness", {}))
    return rep
