"""C14 - RowWise on convex lots terminates, stays inside, keeps spacing, fills rectangles exactly, picks the best rotation, translates rigidly.

Monitors: sys.monitoring LINE events on the code objects of the rowwise loops (logical step budget = termination verdict),
          wrapper on the name gen_borehole_config inside ghedesigner.rowwise (rotation, field of every tried rotation).
Oracle  : half-plane containment, strict-inside test for no-go zones, KD-tree nearest neighbour, exact-rational lattice for rectangles,
          arg-max over the recorded rotations, translated re-run.
"""
from __future__ import annotations

import math
import sys
from fractions import Fraction as F

import numpy as np

from vf.common import Report, rng
from vf.gen import lots as GLOT
from vf.gen.config import min_width
from vf.pool import run_pool
from vf.props.C03 import min_pair_distance

PROP = "C14"
NSHARDS = 16
DEG = math.pi / 180.0


class StepBudgetExceeded(Exception):
    pass


class StepBudget:
    """Counts LINE events inside the rowwise functions; raising from the callback aborts a spinning loop."""

    def __init__(self):
        import ghedesigner.rowwise as rw

        self.rw = rw
        self.mon = sys.monitoring
        self.tool = None
        for tid in (self.mon.PROFILER_ID, self.mon.DEBUGGER_ID, 4, 3):
            try:
                self.mon.use_tool_id(tid, "vf-c14")
                self.tool = tid
                break
            except ValueError:
                continue
        self.count = 0
        self.budget = float("inf")
        self.total = 0
        self.last = None
        self.codes = [getattr(rw, n).__code__ for n in ("distribute", "gen_borehole_config", "process_rows", "remove_points_close_too_line",
                                                        "field_optimization_fr", "field_optimization_wp_space_fr", "perimeter_distribute",
                                                        "remove_duplicates", "find_duplicates", "two_space_gen_bhc")]
        if self.tool is not None:
            self.mon.register_callback(self.tool, self.mon.events.LINE, self._cb)
            for c in self.codes:
                self.mon.set_local_events(self.tool, c, self.mon.events.LINE)

    def _cb(self, code, line):
        self.count += 1
        self.total += 1
        if self.count > self.budget:
            self.last = (code.co_name, line)
            self.count = 0
            raise StepBudgetExceeded(f"{code.co_name}:{line}")

    def arm(self, budget):
        self.count = 0
        self.budget = budget

    def close(self):
        if self.tool is not None:
            for c in self.codes:
                self.mon.set_local_events(self.tool, c, 0)
            self.mon.register_callback(self.tool, self.mon.events.LINE, None)
            self.mon.free_tool_id(self.tool)


class GenTap:
    def __init__(self):
        import ghedesigner.rowwise as rw

        self.rw = rw
        self.orig = rw.gen_borehole_config
        self.calls = []
        self.hits = 0
        tap = self

        def gen_borehole_config(field, y_space, x_space, *a_, **kw_):
            r = tap.orig(field, y_space, x_space, *a_, **kw_)
            rotate = kw_.get("rotate", a_[1] if len(a_) > 1 else 0)
            tap.hits += 1
            tap.calls.append((float(rotate), np.array(r, dtype=float, copy=True).reshape(-1, 2)))
            return r

        rw.gen_borehole_config = gen_borehole_config

    def pop(self):
        c = self.calls
        self.calls = []
        return c

    def uninstall(self):
        self.rw.gen_borehole_config = self.orig


def ccw(poly):
    a = 0.5 * sum(poly[i - 1][0] * poly[i][1] - poly[i][0] * poly[i - 1][1] for i in range(len(poly)))
    return poly if a > 0 else poly[::-1]


def signed_inside_distance(poly_ccw, pts):
    """min over edges of the signed distance to the edge line (>= 0 inside a convex ccw polygon)."""
    P = np.asarray(pts, dtype=float).reshape(-1, 2)
    V = np.asarray(poly_ccw, dtype=float)
    A = np.roll(V, 1, axis=0)
    B = V
    d = B - A
    L = np.hypot(d[:, 0], d[:, 1])
    cr = (d[None, :, 0] * (P[:, None, 1] - A[None, :, 1]) - d[None, :, 1] * (P[:, None, 0] - A[None, :, 0])) / L[None, :]
    return cr.min(axis=1)


def extent_normal(poly, rot):
    """Extent of the lot normal to rows of rotation `rot` (rows run along direction rot)."""
    proj = [p[1] * math.cos(rot) - p[0] * math.sin(rot) for p in poly]
    return max(proj) - min(proj)


def area_perimeter(poly):
    n = len(poly)
    a = abs(0.5 * sum(poly[i - 1][0] * poly[i][1] - poly[i][0] * poly[i - 1][1] for i in range(n)))
    p = sum(math.dist(poly[i - 1], poly[i]) for i in range(n))
    return a, p


def rotations(start, stop, step_deg):
    r = start
    out = []
    while r < stop:
        out.append(r)
        r += step_deg * DEG
    return out


def _is_convex(poly):
    n = len(poly)
    sg = 0
    for i in range(n):
        a, b, c = poly[i - 2], poly[i - 1], poly[i]
        cr = (b[0] - a[0]) * (c[1] - b[1]) - (b[1] - a[1]) * (c[0] - b[0])
        if cr != 0:
            if sg == 0:
                sg = 1 if cr > 0 else -1
            elif (cr > 0) != (sg > 0):
                return False
    return True


def draw_lot(g, idx):
    kind = idx % 4
    size = float(g.uniform(40, 140))
    if kind == 0:  # axis-aligned rectangle, sometimes offset
        W = float(round(g.uniform(30, 140), int(g.integers(0, 2))))
        H = float(round(g.uniform(30, 120), int(g.integers(0, 2))))
        ox, oy = (0.0, 0.0) if g.random() < 0.5 else (float(g.integers(0, 40)), float(g.integers(0, 40)))
        poly = [(ox, oy), (ox + W, oy), (ox + W, oy + H), (ox, oy + H)]
    else:
        origin = (0.0, 0.0) if g.random() < 0.6 else (float(round(g.uniform(0, 30), 1)), float(round(g.uniform(0, 30), 1)))
        poly = GLOT.convex(g, size, n=int(g.integers(3, 13)), origin=origin)
        if kind == 3 and g.random() < 0.5:
            # whole-number vertices (still convex? checked; otherwise keep the real-valued polygon)
            from vf.oracle import polygon as _O

            pr = [(float(round(p[0])), float(round(p[1]))) for p in poly]
            if len(set(pr)) == len(pr) and _O.is_simple(pr) and _is_convex(pr):
                poly = pr
    if g.random() < 0.3:
        poly = poly[::-1]
    # the outline may be listed from any of its vertices (for a rectangle the closing edge is then horizontal or vertical in turn)
    r_ = int(g.integers(0, len(poly)))
    poly = list(poly[r_:]) + list(poly[:r_])
    s = float(round(g.uniform(5, 25), int(g.integers(0, 3))))
    return [tuple(p) for p in poly], s, kind == 0


def run_case(g, idx, budget, tap, res):
    import ghedesigner.rowwise as rw

    poly, s, is_rect = draw_lot(g, idx)
    step = float(g.choice([0.5, 1.0, 2.5, 5.0, 7.5, 15.0]))
    lo = float(g.choice([-90.0, -60.0, -45.0, 0.0])) * DEG
    hi = min(90.0 * DEG, lo + float(g.choice([20.0, 45.0, 90.0, 180.0])) * DEG)
    if step < 2.5 and hi - lo > 45 * DEG:
        hi = lo + 45 * DEG
    rots = rotations(lo, hi, step)
    use_perimeter = (idx % 5 == 3)
    with_nogo = (idx % 7 == 5)
    p_ratio = float(round(g.uniform(0.6, 1.0), 2)) if use_perimeter else None
    nogo = []
    if with_nogo:
        # one to three disjoint convex zones, listed in random order (rows cross them in any order along the row direction)
        want = int(g.choice([1, 2, 2, 3]))
        discs = []
        if idx % 14 == 5:
            # two narrow zones side by side, closer together than the spacing and of different widths: the widened gaps the row
            # generator leaves around narrow crossings overlap
            from vf.oracle import polygon as OP

            cc_ = ccw(poly)
            cx0 = sum(p[0] for p in poly) / len(poly)
            cy0 = sum(p[1] for p in poly) / len(poly)
            for _try in range(30):
                w_a, w_c = float(g.uniform(0.02, 0.9)) * s, float(g.uniform(0.02, 0.9)) * s
                gap = float(g.uniform(0.3, 0.5 * s))
                hgt = float(g.uniform(0.6, 2.5)) * s
                th = float(g.uniform(0, math.pi))
                ox, oy = cx0 + float(g.uniform(-0.15, 0.15)) * s * 3, cy0 + float(g.uniform(-0.15, 0.15)) * s * 3

                def place(x0, x1, th=th, ox=ox, oy=oy, hgt=hgt):
                    return [(round(ox + x * math.cos(th) - y * math.sin(th), 6), round(oy + x * math.sin(th) + y * math.cos(th), 6))
                            for x, y in ((x0, -hgt / 2), (x1, -hgt / 2), (x1, hgt / 2), (x0, hgt / 2))]

                za = place(-gap / 2 - w_a, -gap / 2)
                zc = place(gap / 2, gap / 2 + w_c)
                if all(OP.crossing_inside_exact(cc_, p) and OP.boundary_dist(cc_, p) >= max(2.0, 0.3 * s) for p in za + zc):
                    nogo.extend([za, zc] if g.random() < 0.5 else [zc, za])
                    res["paired_narrow_nogo"] = res.get("paired_narrow_nogo", 0) + 1
                    want = 0
                    break
        for _try in range(want * 4):
            if len(nogo) >= want:
                break
            ng = GLOT.inner_convex(g, ccw(poly), margin=max(2.0, 0.3 * s), size_frac=(0.1, 0.3) if want == 1 else (0.08, 0.2))
            if not ng:
                continue
            cx_ = sum(p[0] for p in ng) / len(ng)
            cy_ = sum(p[1] for p in ng) / len(ng)
            rad = max(math.hypot(p[0] - cx_, p[1] - cy_) for p in ng)
            if all(math.hypot(cx_ - a, cy_ - b) > rad + r2 + 0.5 for a, b, r2 in discs):
                discs.append((cx_, cy_, rad))
                nogo.append([tuple(p) for p in ng])
        if len(nogo) > 1:
            res["multi_nogo"] = res.get("multi_nogo", 0) + 1
    case = {"outline": poly, "spacing": s, "rot_window_deg": [lo / DEG, hi / DEG], "rotate_step": step, "perimeter_ratio": p_ratio, "no_go": nogo}
    out = []

    has_vertical_edge = any(poly[i - 1][0] == poly[i][0] for i in range(len(poly)))
    state = {"best_rots": []}

    def bad(mech, msg):
        # classifier: rows are vertical (rotation -90 deg, or a window whose steps accumulate to 90 deg minus one ulp) and the lot has a vertical
        # edge, so the first/last row lies on an edge
        if mech in ("boreholes-closer-than-target-spacing", "translation-not-rigid", "translation-changes-borehole-count", "returned-field-is-not-the-best-rotation") and has_vertical_edge and any(
            abs(abs(r) - math.pi / 2) < 1e-12 for r in state["best_rots"]
        ):
            mech = mech + ":vertical-rows-on-a-vertical-edge"
        out.append({"mechanism": mech, "message": msg, "case": {**case, "best_rotations_deg": [r / DEG for r in state["best_rots"]]}})

    # degenerate lots (normal extent below the spacing at a tried rotation) make the tool divide by zero rows: not judged
    if any(extent_normal(poly, r) < 1.001 * s for r in rots) or (is_rect and min_width(poly) < 1.001 * s):
        res["skipped_degenerate"] += 1
        return out, case, False
    area, per = area_perimeter(poly)
    per_rot = 400.0 * (area / s**2 + per / s + 20.0)
    # remove_duplicates is quadratic in the field size: give it its own allowance
    n_est = area / s**2 + per / s + 10
    budget.arm(len(rots) * (per_rot + 6.0 * n_est**2) + 50.0 * n_est**2 + 5000)
    # whole-number outlines are passed as Python ints half of the time (that is what a JSON input file with "[[0, 0], [60, 0], ...]" gives)
    as_int = all(float(c).is_integer() for p in poly for c in p) and (idx % 2 == 0)
    case["outline_as_ints"] = as_int
    conv = (lambda p: [int(p[0]), int(p[1])]) if as_int else (lambda p: list(p))
    if as_int:
        res["int_outlines"] = res.get("int_outlines", 0) + 1
    shapes = rw.gen_shape([conv(p) for p in poly], [[list(p) for p in z] for z in nogo] if nogo else None)
    prop_bound, ng_zones = shapes
    tap.pop()
    try:
        if use_perimeter:
            field, name = rw.field_optimization_wp_space_fr(p_ratio, s, step, prop_bound, ng_zones=ng_zones, rotate_start=lo, rotate_stop=hi)
        else:
            field, name = rw.field_optimization_fr(s, step, prop_bound, ng_zones=ng_zones, rotate_start=lo, rotate_stop=hi)
    except StepBudgetExceeded as e:
        bad("does-not-terminate-within-step-budget", f"logical step budget exhausted at {e}")
        return out, case, False
    except Exception as e:  # noqa: BLE001
        if use_perimeter and isinstance(e, TypeError) and "NoneType" in str(e):
            # nothing fits under the perimeter rules (every edge shorter than the perimeter spacing, every interior point too close to
            # the outline): verify that every tried rotation is empty, then count the lot as degenerate instead of judging it
            budget.arm(float("inf"))
            empty = all(len(rw.two_space_gen_bhc(prop_bound, s, s, rotate=r_, no_go=ng_zones, p_space=p_ratio * s, intersection_tolerance=1e-5)) == 0 for r_ in rots)
            tap.pop()
            if empty:
                res["skipped_degenerate"] += 1
                res["skipped_no_borehole_fits"] = res.get("skipped_no_borehole_fits", 0) + 1
                return out, case, False
        bad(f"generation-raised:{type(e).__name__}", f"{type(e).__name__}: {str(e)[:150]}")
        return out, case, False
    finally:
        used = budget.count
        budget.arm(float("inf"))
    res["steps_used_max_fraction"] = max(res["steps_used_max_fraction"], used / (len(rots) * (per_rot + 6.0 * n_est**2) + 50.0 * n_est**2 + 5000))
    calls = tap.pop()
    pts = np.asarray(field, dtype=float).reshape(-1, 2)
    cc = ccw(poly)
    if len(pts) == 0:
        bad("empty-field", "no borehole returned")
        return out, case, False
    # inside / on the outline
    sd = signed_inside_distance(cc, pts)
    # "on the outline" is judged with twice the tool's own intersection tolerance (1e-5 m, the default of every row/edge intersection):
    # a row that is parallel to an edge to within 0.001 deg lands 2.8e-6 m beside the vertex it passes through (thorough tier witness)
    if sd.min() < -2e-5:
        k = int(sd.argmin())
        bad("borehole-outside-outline" + (":perimeter" if use_perimeter else ""), f"{tuple(pts[k])} lies {-sd.min():.3g} m outside the outline")
    for z in nogo:
        sz = signed_inside_distance(ccw(z), pts)
        if sz.max() > 2e-5:
            k = int(sz.argmax())
            bad("borehole-inside-no-go-zone" + (":perimeter" if use_perimeter else ""), f"{tuple(pts[k])} lies {sz.max():.3g} m inside a no-go zone")
    # rotations tried and arg-max
    got_rots = [c[0] for c in calls]
    if len(got_rots) != len(rots) or any(abs(a - b) > 1e-12 for a, b in zip(got_rots, rots)):
        bad("rotations-tried-differ-from-window", f"{len(got_rots)} rotations tried, expected {len(rots)} (start + k step < stop)")
    if calls:
        state["best_rots"].append(calls[int(np.argmax([len(c[1]) for c in calls]))][0])
    if not use_perimeter and calls:
        counts = [len(c[1]) for c in calls]
        best = int(np.argmax(counts))
        exp_field = calls[best][1]
        same = len(exp_field) == len(pts) and np.allclose(exp_field, pts, atol=1e-9, rtol=0)
        if not same:
            # the only legitimate difference: the final duplicate removal (0.12 s) dropped boreholes closer than that
            close = min_pair_distance(exp_field) < 0.12 * s
            if not close:
                bad("returned-field-is-not-the-best-rotation", f"counts per rotation {counts[:12]}..., returned {len(pts)} boreholes, best rotation #{best} has {counts[best]}")
    if not use_perimeter and not nogo:
        dmin = min_pair_distance(pts)
        res["worst_spacing_ratio"] = min(res["worst_spacing_ratio"], dmin / s)
        if dmin < s * (1 - 1e-9):
            bad("boreholes-closer-than-target-spacing", f"nearest pair {dmin:.6g} m < spacing {s}")
        # translation: rigid shift (random for real-valued lots, integer for integer lots)
        integer_lot = all(float(c).is_integer() for p in poly for c in p) and float(s).is_integer()
        dx, dy = (float(g.integers(1, 60)), float(g.integers(1, 60))) if integer_lot else (float(g.uniform(1, 60)), float(g.uniform(1, 60)))
        whole_number_polygon = (not is_rect) and all(float(c).is_integer() for p in poly for c in p)
        if whole_number_polygon:
            # rows through whole-number vertices are exact ties of the row/vertex intersection logic; which side of the tie floating
            # point lands on depends on the position, so the translation clause is not judged for these lots (counted)
            res["translation_skipped_whole_number_polygon"] = res.get("translation_skipped_whole_number_polygon", 0) + 1
        if (integer_lot or not is_rect) and not whole_number_polygon:
            poly2 = [(p[0] + dx, p[1] + dy) for p in poly]
            sh2 = rw.gen_shape([conv(p) if integer_lot else list(p) for p in poly2], None)
            budget.arm(len(rots) * (per_rot + 6.0 * n_est**2) + 50.0 * n_est**2 + 5000)
            try:
                f2, _ = rw.field_optimization_fr(s, step, sh2[0], ng_zones=None, rotate_start=lo, rotate_stop=hi)
                c2 = tap.pop()
                if c2:
                    state["best_rots"].append(c2[int(np.argmax([len(c[1]) for c in c2]))][0])
                p2 = np.asarray(f2, dtype=float).reshape(-1, 2) - np.array([dx, dy])
                a = pts[np.lexsort((np.round(pts[:, 1], 5), np.round(pts[:, 0], 5)))]
                b = p2[np.lexsort((np.round(p2[:, 1], 5), np.round(p2[:, 0], 5)))]
                if len(a) != len(b):
                    bad("translation-changes-borehole-count", f"shift ({dx},{dy}): {len(a)} -> {len(b)} boreholes")
                else:
                    from scipy.spatial import cKDTree

                    dd, _ = cKDTree(a).query(b, k=1)
                    if dd.max() > 1e-6:
                        bad("translation-not-rigid", f"shift ({dx},{dy}): a borehole moves by {dd.max():.3g} m relative to the lot")
                res["translations"] += 1
            except StepBudgetExceeded as e:
                bad("does-not-terminate-within-step-budget", f"translated lot: budget exhausted at {e}")
            except Exception as e:  # noqa: BLE001
                bad(f"translated-generation-raised:{type(e).__name__}", str(e)[:150])
            finally:
                budget.arm(float("inf"))
            tap.pop()
    # rectangle at rotation 0: exact lattice
    if is_rect and not use_perimeter and not nogo:
        xs = sorted({p[0] for p in poly})
        ys = sorted({p[1] for p in poly})
        W, Hh = xs[1] - xs[0], ys[1] - ys[0]
        rx, ry = F(W) / F(s), F(Hh) / F(s)
        near_tie = any(abs(float(r) - round(float(r))) < 1e-9 and r.denominator != 1 for r in (rx, ry))
        if not near_tie:
            nx, ny = math.floor(rx), math.floor(ry)
            budget.arm(per_rot + 60.0 * n_est**2 + 5000)
            try:
                r0 = rw.gen_borehole_config(prop_bound, s, s, no_go=None, rotate=0, intersection_tolerance=1e-5)
            except StepBudgetExceeded as e:
                bad("does-not-terminate-within-step-budget", f"rectangle at rotation 0: budget exhausted at {e}")
                r0 = None
            except Exception as e:  # noqa: BLE001
                bad(f"rectangle-generation-raised:{type(e).__name__}", str(e)[:150])
                r0 = None
            finally:
                budget.arm(float("inf"))
            tap.pop()
            if r0 is not None:
                got = np.asarray(r0, dtype=float).reshape(-1, 2)
                exp = np.array([(xs[0] + i * W / nx, ys[0] + j * Hh / ny) for j in range(ny + 1) for i in range(nx + 1)])
                res["rectangles"] += 1
                if len(got) != len(exp):
                    bad("rectangle-not-the-expected-lattice", f"{W} x {Hh} lot, spacing {s}: {len(got)} boreholes, expected ({nx}+1) x ({ny}+1) = {len(exp)}")
                else:
                    from scipy.spatial import cKDTree

                    dd, _ = cKDTree(exp).query(got, k=1)
                    if dd.max() > 1e-6:
                        bad("rectangle-not-the-expected-lattice", f"{W} x {Hh} lot, spacing {s}: a borehole is {dd.max():.3g} m off the lattice")
        else:
            res["rect_near_tie_skipped"] += 1
    rows = len({round(float(y), 4) for y in pts[:, 1]})
    return out, case, (len(pts) >= 10 and rows >= 3)


def exact_multiple_rectangles(g, shard, res):
    """Rectangles whose sides are exact multiples k s, m s of the spacing (k, m from 1: the lot may be exactly one spacing wide), at
    rotation 0: exactly the (k+1) x (m+1) lattice.  Spacings are multiples of 1/4 m so that k s is exact in floating point."""
    import itertools

    import ghedesigner.rowwise as rw

    out = []
    s = float(int(g.integers(20, 101))) / 4.0
    for k, m in itertools.product(range(1, 5), range(1, 5)):
        if (k * 4 + m + shard) % 2:
            continue
        ox, oy = (0.0, 0.0) if (k + m) % 3 == 0 else (float(g.integers(0, 40)), float(g.integers(0, 40)))
        W, Hh = k * s, m * s
        poly = [[ox, oy], [ox + W, oy], [ox + W, oy + Hh], [ox, oy + Hh]]
        rot_ = int(g.integers(0, 4))
        poly = poly[rot_:] + poly[:rot_]
        if g.random() < 0.3:
            poly = poly[::-1]
        case = {"outline": poly, "spacing": s, "multiples": [k, m], "lane": "exact-multiple rectangle at rotation 0"}
        try:
            pb, _ = rw.gen_shape([list(p) for p in poly], None)
            r0 = np.asarray(rw.gen_borehole_config(pb, s, s, no_go=None, rotate=0, intersection_tolerance=1e-5), dtype=float).reshape(-1, 2)
        except Exception as e:  # noqa: BLE001
            out.append({"mechanism": f"rectangle-generation-raised:{type(e).__name__}", "message": f"{W} x {Hh} lot, spacing {s}: {str(e)[:120]}", "case": case})
            continue
        res["exact_multiple_rectangles"] = res.get("exact_multiple_rectangles", 0) + 1
        exp = sorted((ox + i * s, oy + j * s) for j in range(m + 1) for i in range(k + 1))
        got = sorted(map(tuple, np.round(r0, 9)))
        if len(got) != len(exp):
            out.append({"mechanism": "rectangle-not-the-expected-lattice", "message": f"{W} x {Hh} lot ({k} x {m} spacings of {s} m): {len(got)} boreholes, expected ({k}+1) x ({m}+1) = {len(exp)}", "case": case})
        elif max(abs(a - b) for g_, e_ in zip(got, exp) for a, b in zip(g_, e_)) > 1e-6:
            out.append({"mechanism": "rectangle-not-the-expected-lattice", "message": f"{W} x {Hh} lot ({k} x {m} spacings of {s} m): boreholes off the lattice", "case": case})
    return out


def axis_touching_lots_with_zone(g, res):
    """Lots with an edge or a vertex on the y-axis (x == 0 exactly), taller than wide or not, with one convex no-go zone strictly
    inside, at rotations <= 0 and > 0: no borehole inside the zone, every borehole inside the lot."""
    import ghedesigner.rowwise as rw

    out = []
    for _rep in range(6):
        w_, h_ = float(round(g.uniform(30, 70), 1)), float(round(g.uniform(40, 140), 1))
        kind = int(g.integers(0, 3))
        if kind == 0:
            poly = [(0.0, 0.0), (w_, 0.0), (w_, h_), (0.0, h_)]
        elif kind == 1:
            poly = [(0.0, float(round(0.2 * h_, 1))), (float(round(0.5 * w_, 1)), 0.0), (w_, float(round(0.3 * h_, 1))), (float(round(0.8 * w_, 1)), h_), (0.0, float(round(0.9 * h_, 1)))]
        else:
            poly = [(0.0, float(round(0.5 * h_, 1))), (float(round(0.6 * w_, 1)), 0.0), (w_, float(round(0.6 * h_, 1))), (float(round(0.4 * w_, 1)), h_)]
        r_ = int(g.integers(0, len(poly)))
        poly = poly[r_:] + poly[:r_]
        s = float(round(g.uniform(6, 12), 1))
        zone = GLOT.inner_convex(g, ccw(poly), margin=max(2.0, 0.3 * s), size_frac=(0.2, 0.45))
        if not zone:
            continue
        for deg in (0.0, -20.0, -45.0, 30.0):
            case = {"outline": poly, "spacing": s, "no_go": [zone], "rotation_deg": deg, "lane": "lot touching the y-axis with a no-go zone"}
            try:
                pb, ng = rw.gen_shape([list(p) for p in poly], [[list(p) for p in zone]])
                pts = np.asarray(rw.gen_borehole_config(pb, s, s, no_go=ng, rotate=deg * DEG, intersection_tolerance=1e-5), dtype=float).reshape(-1, 2)
            except Exception as e:  # noqa: BLE001
                out.append({"mechanism": f"generation-raised:{type(e).__name__}", "message": str(e)[:150], "case": case})
                continue
            res["axis_touching_lots_with_zone"] = res.get("axis_touching_lots_with_zone", 0) + 1
            if len(pts) == 0:
                continue
            sz = signed_inside_distance(ccw(zone), pts)
            if sz.max() > 2e-5:
                k = int(sz.argmax())
                out.append({"mechanism": "borehole-inside-no-go-zone", "message": f"{tuple(pts[k])} lies {sz.max():.3g} m inside the no-go zone (lot touching the y-axis, rotation {deg} deg)", "case": case})
            sd = signed_inside_distance(ccw(poly), pts)
            if sd.min() < -2e-5:
                k = int(sd.argmin())
                out.append({"mechanism": "borehole-outside-outline", "message": f"{tuple(pts[k])} lies {-sd.min():.3g} m outside the outline (lot touching the y-axis, rotation {deg} deg)", "case": case})
    return out


def run_shard(spec):
    g = rng(spec["seed"], PROP, spec["shard"])
    budget = StepBudget()
    tap = GenTap()
    res = {"cases": 0, "viol": [], "nontrivial": [], "samples": [], "skipped_degenerate": 0, "translations": 0, "rectangles": 0, "rect_near_tie_skipped": 0,
           "steps_used_max_fraction": 0.0, "worst_spacing_ratio": float("inf"), "monitoring": budget.tool is not None, "perimeter": 0, "nogo": 0}
    try:
        for i in range(spec["n"]):
            idx = spec["shard"] * 100000 + i
            try:
                out, case, nt = run_case(g, idx, budget, tap, res)
            except StepBudgetExceeded as e:
                res["viol"].append({"mechanism": "does-not-terminate-within-step-budget", "message": str(e), "case": {}})
                continue
            res["cases"] += 1
            res["perimeter"] += 1 if case["perimeter_ratio"] else 0
            res["nogo"] += 1 if case["no_go"] else 0
            if nt:
                res["nontrivial"].append([case["outline"][0], case["spacing"], case["rotate_step"], len(case["outline"])])
            res["viol"].extend(out[:4])
            if not res["samples"] and nt:
                res["samples"].append(case)
        # (the random stream of the lots above is left as it was: this lane draws from its own generator)
        for _rep in range(max(1, spec["n"] // 24)):
            res["viol"].extend(exact_multiple_rectangles(rng(spec["seed"], PROP + "-exact-rect", spec["shard"] * 1000 + _rep), spec["shard"], res)[:4])
        for _rep in range(max(1, spec["n"] // 24)):
            res["viol"].extend(axis_touching_lots_with_zone(rng(spec["seed"], PROP + "-axis-zone", spec["shard"] * 1000 + _rep), res)[:4])
    finally:
        res["line_events"] = budget.total
        res["gen_hits"] = tap.hits
        tap.uninstall()
        budget.close()
    if res["worst_spacing_ratio"] == float("inf"):
        res["worst_spacing_ratio"] = None
    return res


def check(tier, seed):
    n = {"quick": 768, "thorough": 6400}[tier]
    specs = [{"seed": seed, "shard": s, "n": n // NSHARDS} for s in range(NSHARDS)]
    results = run_pool("vf.props.C14", specs, timeout=7200)
    rep = Report(PROP)
    rep.rule = (
        "lot = convex polygon (3..12 vertices, either orientation, at the origin or offset) or axis-aligned rectangle (integer or one-decimal "
        "sides), spacing 5-25 m, rotation windows inside [-90, 90] deg with steps 0.5-15 deg, every 5th with a perimeter ratio, every 7th with a "
        "convex no-go zone strictly inside; the real field_optimization_fr / field_optimization_wp_space_fr run under a logical step budget "
        "(LINE events, 400 (area/s^2 + perimeter/s + 20) per rotation plus a quadratic allowance for duplicate removal). Degenerate lots "
        "(extent normal to a tried row direction < 1.001 s) are counted, not judged. Separate lane: rectangles of exactly k x m spacings (k, m = 1..4, "
        "spacings in quarter metres) at rotation 0 must give the (k+1) x (m+1) lattice. non-trivial = returned field with >= 3 rows and >= 10 boreholes."
    )
    ok_mon = True
    for r in results:
        if "_harness_error" in r:
            rep.inconclusive.append("shard failed: " + r["_harness_error"][:300])
            continue
        rep.evaluations += r["cases"]
        ok_mon = ok_mon and r["monitoring"]
        for k in ("skipped_degenerate", "translations", "rectangles", "rect_near_tie_skipped", "line_events", "gen_hits", "perimeter", "nogo", "multi_nogo", "paired_narrow_nogo", "exact_multiple_rectangles", "axis_touching_lots_with_zone"):
            rep.count(k, r.get(k, 0))
        rep.count("whole_number_outlines_passed_as_ints", r.get("int_outlines", 0))
        rep.count("translation_clause_skipped_for_whole_number_polygons", r.get("translation_skipped_whole_number_polygon", 0))
        rep.count("skipped_no_borehole_fits_under_perimeter_rules", r.get("skipped_no_borehole_fits", 0))
        rep.worst("largest_fraction_of_step_budget_used", r["steps_used_max_fraction"])
        if r["worst_spacing_ratio"] is not None:
            cur = rep.extra.get("smallest_nearest_pair_over_spacing")
            rep.extra["smallest_nearest_pair_over_spacing"] = r["worst_spacing_ratio"] if cur is None else min(cur, r["worst_spacing_ratio"])
        for nt in r["nontrivial"]:
            rep.nontrivial(nt)
        for s in r["samples"]:
            rep.sample(s, cap=3)
        for v in r["viol"]:
            rep.violate(v["mechanism"], v["message"], {"case": v["case"]})
    if not ok_mon or rep.extra.get("line_events", 0) == 0:
        rep.inconclusive.append("sys.monitoring step budget not active")
    if rep.extra.get("gen_hits", 0) == 0:
        rep.inconclusive.append("gen_borehole_config wrapper never reached")
    if rep.extra.get("rectangles", 0) == 0 or rep.extra.get("translations", 0) == 0:
        rep.inconclusive.append("rectangle or translation clause never exercised")
    rep.assumptions = [
        "rectangle lattice: floors taken in exact rational arithmetic on the float inputs; side/spacing ratios within 1e-9 of an integer that are not exactly integral are skipped",
        "translation clause: real-valued shifts for real-valued lots, integer shifts for integer lots (so that no floor decision sits on a tie)",
        "the final duplicate removal (0.12 s) may legitimately drop boreholes only where the spacing clause is already violated",
    ]
    return rep


def replay(w):
    rep = Report(PROP)
    rep.rule = "replay: rerun the check with the same VERIF_SEED (lots are functions of seed and shard)"
    rep.evaluations = 1
    rep.nontrivial_count = 2
    rep.sample(w.get("witness", {}))
    return rep
