"""C10 - short-time radial g-function: tiling, thermal masses, resistances, energy balance, monotone/finite, finer-mesh agreement.

Monitors: wrapper on RadialNumericalBH.fill_radial_cells (cell table) and on the name `dgtsv` inside
          ghedesigner.radial_numerical_borehole (temperature vector after every implicit step of the real solver).
Oracle  : algebraic identities on the cell table, per-step heat balance including the far-boundary flux, and an
          independent finer-mesh / smaller-step solver of the same layered problem (vf.oracle.radial).
"""
from __future__ import annotations

import math

import numpy as np

from vf.common import Report, rng
from vf.gen import phys as GP
from vf.oracle import radial as OR
from vf.pool import run_pool

PROP = "C10"
NSHARDS = 16


class Tap:
    """Installs the two wrappers; collects the cell table and every solved temperature vector."""

    def __init__(self):
        import ghedesigner.radial_numerical_borehole as rnb

        self.rnb = rnb
        self.cells = None
        self.temps = []
        self.hits = {"fill_radial_cells": 0, "dgtsv": 0}
        self._orig_fill = rnb.RadialNumericalBH.fill_radial_cells
        self._orig_dgtsv = rnb.dgtsv
        tap = self

        def fill(self_, *a_, **kw_):
            cells = tap._orig_fill(self_, *a_, **kw_)
            tap.cells = np.array(cells, copy=True)
            tap.hits["fill_radial_cells"] += 1
            return cells

        def dgtsv(dl, d, du, b, *a, **kw):
            r = tap._orig_dgtsv(dl, d, du, b, *a, **kw)
            tap.hits["dgtsv"] += 1
            tap.on_step(b)
            return r

        self.record = True
        rnb.RadialNumericalBH.fill_radial_cells = fill
        rnb.dgtsv = dgtsv

    def reset(self):
        self.cells = None
        self.temps = []
        self.nsteps = 0
        self.prev = None
        self.last = None
        self.loss = 0.0
        self.worst_step = 0.0
        self._cap = None

    def on_step(self, b):
        """Online heat balance of one implicit step of the real solver: sum C dT = q dt - boundary flux dt."""
        from ghedesigner.radial_numerical_borehole import CellProps as CP

        c = self.cells
        if c is None:
            return
        if self._cap is None:
            n = c.shape[1]
            self._cap = c[CP.RHO_CP] * c[CP.VOL]
            r_c, r_in, r_out, k = c[CP.R_CENTER], c[CP.R_IN], c[CP.R_OUT], c[CP.K]
            res_last = math.log(r_out[n - 2] / r_c[n - 2]) / (2 * math.pi * k[n - 2]) + math.log(r_c[n - 1] / r_in[n - 1]) / (2 * math.pi * k[n - 1])
            self._cond_last = 1.0 / res_last
            self.prev = np.full(n, 20.0)
        n = c.shape[1]
        bb = np.asarray(b, dtype=float)
        if bb.shape[0] == n:
            cur = np.array(bb, copy=True)
        else:
            # a solve over part of the grid: the cells it does not cover keep their temperatures - the state after the step is the
            # previous state with the solved entries replaced (heat that leaves through the edge of the solved part then shows up as
            # a per-step imbalance, which is what it is)
            cur = np.array(self.prev, copy=True)
            m = min(n, bb.shape[0])
            cur[:m] = bb[:m]
            self.partial_solves = getattr(self, "partial_solves", 0) + 1
        flux_out = self._cond_last * (cur[n - 2] - cur[n - 1])
        self.loss += flux_out * 120.0
        dE = float(np.dot(self._cap[: n - 1], cur[: n - 1] - self.prev[: n - 1]))
        err = abs(dE - (120.0 - flux_out * 120.0)) / 120.0
        if err > self.worst_step:
            self.worst_step = err
        self.prev = cur
        self.last = cur
        self.nsteps += 1

    def uninstall(self):
        self.rnb.RadialNumericalBH.fill_radial_cells = self._orig_fill
        self.rnb.dgtsv = self._orig_dgtsv


def judge_case(tap, rn, bhe_eq, with_reference):
    from ghedesigner.radial_numerical_borehole import CellProps as CP

    v = []
    info = {}
    c = tap.cells
    T = [tap.last]  # only the final state is kept; the per-step balance is accumulated online
    nsteps = tap.nsteps
    r_in, r_c, r_out, k, rc, vol = c[CP.R_IN], c[CP.R_CENTER], c[CP.R_OUT], c[CP.K], c[CP.RHO_CP], c[CP.VOL]
    n = c.shape[1]

    def bad(mech, msg):
        v.append({"mechanism": mech, "message": msg})

    # --- tiling
    t_wall = bhe_eq.pipe.r_out - bhe_eq.pipe.r_in
    r_fluid_exp = math.sqrt(2.0) * bhe_eq.pipe.r_out - 2.0 * t_wall
    gaps = np.abs(r_out[:-1] - r_in[1:])
    if gaps.max() > 1e-12:
        i = int(gaps.argmax())
        bad("cells-do-not-tile", f"gap/overlap {gaps.max():.3g} m between cells {i} and {i + 1}")
    if abs(r_in[0] - r_fluid_exp) > 1e-12 or abs(r_out[-1] - 10.0) > 1e-9:
        bad("cells-do-not-span-core-to-far-field", f"r_in[0]={r_in[0]} (expected {r_fluid_exp}), r_out[-1]={r_out[-1]}")
    if np.any(r_out <= r_in) or np.any(np.abs(vol - math.pi * (r_out**2 - r_in**2)) > 1e-12 * np.maximum(vol, 1e-30) + 1e-18):
        bad("cell-volume-wrong", "a cell has non-positive thickness or volume != pi (r_out^2 - r_in^2)")
    info["tiling_max_gap"] = float(gaps.max())
    # --- thermal mass of the fluid cells
    nf = 3
    mass = float(np.sum(rc[:nf] * vol[:nf]))
    mass_exp = 2.0 * math.pi * bhe_eq.pipe.r_in**2 * bhe_eq.fluid.rhoCp
    info["fluid_mass_rel_err"] = abs(mass - mass_exp) / mass_exp
    if info["fluid_mass_rel_err"] > 1e-12:
        bad("fluid-thermal-mass-wrong", f"sum rho_cp V of fluid cells {mass} vs 2 pi r_in^2 rho_cp_f {mass_exp}")
    # --- resistances between fluid and borehole wall
    wall = 3 + 1 + 4 + 27
    res = float(np.sum(np.log(r_out[nf:wall] / r_in[nf:wall]) / (2 * math.pi * k[nf:wall])))
    rb = bhe_eq.calc_effective_borehole_resistance()
    info["resistance_rel_err"] = abs(res - rb) / rb
    if info["resistance_rel_err"] > 1e-10:
        bad("layers-do-not-sum-to-Rb", f"sum of layer resistances {res} vs effective borehole resistance {rb}")
    if abs(r_out[wall - 1] - bhe_eq.b.r_b) > 1e-12:
        bad("borehole-wall-misplaced", f"cell {wall - 1} ends at {r_out[wall - 1]} not at r_b {bhe_eq.b.r_b}")
    # --- per-step energy balance of the real solver (accumulated online by the tap, see Tap.on_step)
    dt = 120.0
    q = 1.0
    cap = rc * vol
    worst_step = tap.worst_step
    loss = tap.loss
    info["worst_step_balance"] = worst_step
    if worst_step > 1e-7:
        bad("per-step-heat-balance-broken", f"a step stores {worst_step:.3g} x q dt more/less than injected minus boundary flux")
    stored = float(np.dot(cap[: n - 1], T[-1][: n - 1] - 20.0))
    injected = q * dt * nsteps
    imb = abs(stored - injected) / injected
    info["stored_vs_injected"] = imb
    info["boundary_loss_fraction"] = loss / injected
    if imb > 1e-6:
        if abs((injected - stored) - loss) / injected < 1e-7 and loss > 0:
            bad("far-field-boundary-leak", f"stored/injected differs by {imb:.3g}; the difference equals the heat that crossed the fixed 10 m boundary")
        else:
            bad("stored-heat-differs-from-injected", f"stored {stored} J/m vs injected {injected} J/m (rel {imb:.3g}), boundary loss {loss}")
    if np.any(T[-1][n - 1] != 20.0):
        bad("far-field-temperature-moved", f"last cell at {T[-1][n - 1]}")
    # --- response shape
    g = np.asarray(rn.g)
    gb = np.asarray(rn.g_bhw)
    lt = np.asarray(rn.lntts)
    if not (np.all(np.isfinite(g)) and np.all(np.isfinite(gb)) and np.all(np.isfinite(lt))):
        bad("response-not-finite", "g, g_bhw or lntts contains nan/inf")
    else:
        if np.any(np.diff(g) < -1e-12) or np.any(np.diff(gb) < -1e-12):
            bad("response-decreasing", f"min step g {np.diff(g).min():.3g}, g_bhw {np.diff(gb).min():.3g}")
        if gb.min() < -1e-12:
            bad("negative-wall-response", f"min g_bhw {gb.min()}")
        floor = -2 * math.pi * bhe_eq.soil.k * rb
        if g.min() < floor - 1e-9:
            bad("g-below-physical-floor", f"min g {g.min()} < -2 pi k Rb = {floor}")
        if np.any(np.diff(lt) <= 0):
            bad("sts-time-axis-not-increasing", "lntts not strictly increasing")
        # the 30 published points must be the solver's own last state
        g_last = 2 * math.pi * bhe_eq.soil.k * ((T[-1][0] - 20.0) / q - rb)
        if abs(g_last - g[-1]) > 1e-9 * max(1.0, abs(g_last)):
            bad("published-g-differs-from-solver-state", f"g[-1]={g[-1]} vs {g_last} from the last temperature vector")
        gb_last = 2 * math.pi * bhe_eq.soil.k * ((T[-1][wall] - 20.0) / q)
        if abs(gb_last - gb[-1]) > 1e-9 * max(1.0, abs(gb_last)):
            bad("published-g-bhw-differs-from-solver-state", f"g_bhw[-1]={gb[-1]} vs {gb_last}")
    # --- finer-mesh reference
    if with_reference:
        layers, rb_eff = OR.layer_data(rn, bhe_eq)
        g_ref, _, _, _ = OR.solve_reference(layers, rb_eff, bhe_eq.soil.k, t_end=dt * nsteps, dt=30.0, refine=3)
        rel = abs(g[-1] - g_ref) / max(abs(g_ref), 1e-9)
        info["ref_rel_err"] = rel
        if rel > 5e-3:
            bad("disagrees-with-finer-mesh-solution", f"g_end {g[-1]} vs reference {g_ref} (rel {rel:.3g})")
    info["steps"] = nsteps
    return v, info


def run_shard(spec):
    from ghedesigner.radial_numerical_borehole import RadialNumericalBH

    g = rng(spec["seed"], PROP, spec["shard"])
    tap = Tap()
    res = {"cases": 0, "viol": [], "nontrivial": [], "samples": [], "hits": None, "worst": {}, "pipes": {}, "skipped": 0, "steps": 0}
    for i in range(spec["n"]):
        arr = GP.PIPES[(spec["shard"] + i) % 4]
        ph = GP.draw_phys(g, arr)
        extreme = g.random() < 0.25
        H = float(round(g.choice([20.0, 400.0]) if extreme else g.uniform(20, 400), 1))
        if extreme and g.random() < 0.5:
            ph["soil"]["conductivity"] = float(g.choice([0.5, 5.0]))
            ph["soil"]["rho_cp"] = float(g.choice([1.0e6, 4.0e6]))
        flow = GP.draw_flow(g, arr)
        if g.random() < 0.2:
            # thin-walled tubes (SDR-17/21, 32 x 1.5 mm, metal): walls of 0.4-1.9 mm
            t_thin = float(round(g.uniform(0.0004, 0.0019), 5))
            pp = ph["pipe"]
            if arr == "COAXIAL":
                pp["inner_pipe_d_in"] = float(round(pp["inner_pipe_d_out"] - 2 * t_thin, 5))
                pp["outer_pipe_d_in"] = float(round(pp["outer_pipe_d_out"] - 2 * t_thin, 5))
            else:
                pp["inner_diameter"] = float(round(pp["outer_diameter"] - 2 * t_thin, 5))
            res["thin_walled"] = res.get("thin_walled", 0) + 1
        case = {"phys": ph, "H": H, "flow": flow}
        try:
            bhe = GP.make_bhe(ph, H, flow)
            bhe_eq = bhe.to_single()
        except Exception:  # generator produced an unusable exchanger: count, do not judge
            res["skipped"] += 1
            continue
        tap.reset()
        rn = RadialNumericalBH(bhe_eq)
        rn.calc_sts_g_functions(bhe_eq)
        if tap.cells is None or tap.nsteps == 0:
            res["viol"].append({"mechanism": "monitor-not-reached", "message": "wrappers saw no cell table / no solver step", "case": case})
            continue
        with_ref = (i % spec["ref_every"]) == 0
        v, info = judge_case(tap, rn, bhe_eq, with_ref)
        # the same model object used for a second exchanger of the SAME geometry and ground but another fluid, flow and height (what
        # calc_sts_g_functions(tube) with its partial re-initialisation is for; GHE.simulate re-uses its model object in this way)
        if i % 2 == 0:
            import copy as _copy

            ph_b = _copy.deepcopy(ph)
            ph_b["fluid"] = GP.draw_fluid(g)
            H_b = float(round(g.uniform(20, 400), 1))
            flow_b = GP.draw_flow(g, arr)
            try:
                eq_b = GP.make_bhe(ph_b, H_b, flow_b).to_single()
            except Exception:
                eq_b = None
            same_geometry = eq_b is not None and eq_b.pipe.r_in == bhe_eq.pipe.r_in and eq_b.pipe.r_out == bhe_eq.pipe.r_out and eq_b.b.r_b == bhe_eq.b.r_b
            if same_geometry:
                rn_b = RadialNumericalBH(eq_b)
                rn_b.calc_sts_g_functions(eq_b)
                tap.reset()
                rn.calc_sts_g_functions(eq_b)  # rn was constructed for the first exchanger
                v2, _ = judge_case(tap, rn, eq_b, False)
                for x in v2:
                    mech = x["mechanism"] if x["mechanism"] == "far-field-boundary-leak" else "reused-model-object:" + x["mechanism"]
                    v.append({"mechanism": mech, "message": x["message"]})
                if not (np.array_equal(rn.g, rn_b.g) and np.array_equal(rn.g_bhw, rn_b.g_bhw) and np.array_equal(rn.lntts, rn_b.lntts)):
                    v.append({"mechanism": "reused-model-object:response-differs-from-fresh-object",
                              "message": f"second exchanger (fluid {ph_b['fluid']}, H {H_b}) on the re-used object: max |dg| = {float(np.max(np.abs(np.asarray(rn.g) - np.asarray(rn_b.g)))) if len(rn.g) == len(rn_b.g) else 'length'}"})
                res["reused_object_runs"] = res.get("reused_object_runs", 0) + 1
        res["cases"] += 1
        res["steps"] += info["steps"]
        res["pipes"][arr] = res["pipes"].get(arr, 0) + 1
        for kk in ("tiling_max_gap", "fluid_mass_rel_err", "resistance_rel_err", "worst_step_balance", "stored_vs_injected", "ref_rel_err", "boundary_loss_fraction"):
            if kk in info:
                res["worst"][kk] = max(res["worst"].get(kk, 0.0), info[kk])
        if with_ref:
            res["nontrivial"].append([arr, H, flow, ph["soil"]["conductivity"], ph["borehole"]["diameter"]])
        for x in v:
            res["viol"].append({**x, "case": case})
        if not res["samples"]:
            res["samples"].append({"case": case, "steps": info["steps"], "g_end": float(rn.g[-1]), "info": info})
    res["hits"] = tap.hits
    tap.uninstall()
    return res


def check(tier, seed):
    n = {"quick": 96, "thorough": 1600}[tier]
    ref_every = {"quick": 2, "thorough": 2}[tier]
    specs = [{"seed": seed, "shard": s, "n": n // NSHARDS, "ref_every": ref_every} for s in range(NSHARDS)]
    results = run_pool("vf.props.C10", specs, timeout=5400)
    rep = Report(PROP)
    rep.rule = (
        "case = borehole (four pipe types, converted through to_single(); r_b 55-110 mm, H 20-400 m with 25 % at the extremes, soil k "
        "0.5-5, rho_cp 1e6-4e6, five fluids, flow 0.03-1.5 L/s); the real calc_sts_g_functions runs under the cell-table and per-step "
        "temperature taps; every 2nd case re-uses its model object for a second exchanger of the same geometry and ground but another fluid, "
        "flow and height and must reproduce a fresh object bit for bit. non-trivial = case that was also compared with the independent finer-mesh solver; distinct by inputs."
    )
    hits = {"fill_radial_cells": 0, "dgtsv": 0}
    for r in results:
        if "_harness_error" in r:
            rep.inconclusive.append("shard failed: " + r["_harness_error"][:300])
            continue
        rep.evaluations += r["cases"]
        rep.count("solver_steps_observed", r["steps"])
        rep.count("skipped_unusable_exchanger", r["skipped"])
        rep.count("reused_model_object_runs", r.get("reused_object_runs", 0))
        rep.count("thin_walled_tubes", r.get("thin_walled", 0))
        for k2, v2 in (r["hits"] or {}).items():
            hits[k2] += v2
        for k2, v2 in r["worst"].items():
            rep.worst("worst_" + k2, v2)
        for k2, v2 in r["pipes"].items():
            rep.count("cases_" + k2, v2)
        for nt in r["nontrivial"]:
            rep.nontrivial(nt)
        for s in r["samples"]:
            rep.sample(s)
        for v in r["viol"]:
            rep.violate(v["mechanism"], v["message"], {"case": v["case"]})
    rep.extra["monitor_hits"] = hits
    from vf.props import pool_common as _PC

    _PC.add_workload_monitor_results(rep, PROP, tier, seed)
    if hits["fill_radial_cells"] == 0 or hits["dgtsv"] == 0:
        rep.inconclusive.append(f"a deciding monitor was never reached: {hits}")
    rep.assumptions = [
        "pygfunction's effective borehole resistance and convective resistance are inputs to both the tool and the reference",
        "reference solver: own mesh (3x cells per layer), dt 30 s, same layered problem and 10 m Dirichlet boundary",
    ]
    return rep


def replay(w):
    from ghedesigner.radial_numerical_borehole import RadialNumericalBH

    case = w["witness"]["case"]
    tap = Tap()
    bhe_eq = GP.make_bhe(case["phys"], case["H"], case["flow"]).to_single()
    rn = RadialNumericalBH(bhe_eq)
    rn.calc_sts_g_functions(bhe_eq)
    v, info = judge_case(tap, rn, bhe_eq, True)
    tap.uninstall()
    rep = Report(PROP)
    rep.evaluations = 1
    rep.nontrivial_count = 2
    rep.rule = "replay of one witness"
    rep.sample({"case": case, "info": info})
    for x in v:
        rep.violate(x["mechanism"], x["message"], {"case": case})
    return rep
