"""C03 - rectangular-family candidate fields stay on the land, keep b_min, near-square grids exact, lists ordered.

Monitor : geometry assertions on every field of every candidate list obtained through the public API
          (GHEManager.set_geometry_constraints_* + set_design -> _design.coordinates_domain[_nested]).
Oracle  : box containment, exact duplicate test, nearest-neighbour distance (KD-tree), independent grid construction.
"""
from __future__ import annotations

import math

import numpy as np

from vf.common import Report, rng
from vf.pool import run_pool

PROP = "C03"
NSHARDS = 16
METHODS = ["NEARSQUARE", "RECTANGLE", "BIRECTANGLE", "BIZONEDRECTANGLE"]


def window_ok(L, b_min, b_max, need=2):
    """An integer count n >= need with b_min <= L/(n-1) <= b_max exists (computed the way the tool does)."""
    n_lo = math.ceil(L / b_max + 1)
    n_hi = math.floor(L / b_min + 1)
    return n_hi >= n_lo and n_lo >= need


def draw_lot(g: np.random.Generator, i):
    """Lot + spacing window.  Hostile mixes: length <,=,> width, exact divisors, integer and non-integer ratios."""
    for _ in range(200):
        style = int(g.integers(0, 5))
        if style == 0:  # integers
            length = float(g.integers(12, 120))
            width = float(g.integers(12, 120))
        elif style == 1:  # square lot
            length = width = float(round(g.uniform(15, 100), int(g.integers(0, 3))))
        elif style == 2:  # one decimal
            length = float(round(g.uniform(12, 120), 1))
            width = float(round(g.uniform(12, 120), 1))
        else:
            length = float(g.uniform(12, 120))
            width = float(g.uniform(12, 120))
        if i % 3 == 0 and length > width:
            length, width = width, length  # make sure the transposed orientation is exercised often
        cap = max(length, width) / 15.0  # keeps the largest field <= ~16 x 16
        mode = int(g.integers(0, 4))
        if mode == 0:  # exact divisors of the sides
            j = int(g.integers(3, 15))
            b_min = max(length, width) / j
            kx = int(g.integers(2, j + 1))
            ky = int(g.integers(2, j + 1))
            b_max_x = length / max(1, min(kx, int(length / b_min))) if int(length / b_min) >= 1 else b_min
            b_max_y = width / max(1, min(ky, int(width / b_min))) if int(width / b_min) >= 1 else b_min
        elif mode == 1:  # integer spacings
            b_min = float(g.integers(max(2, int(cap)), max(3, int(cap) + 6)))
            b_max_x = b_min + float(g.integers(0, 12))
            b_max_y = b_min + float(g.integers(0, 12))
        else:
            b_min = float(g.uniform(max(2.0, cap), max(2.0, cap) * 2.5))
            b_max_x = b_min * float(g.uniform(1.0, 4.0))
            b_max_y = b_min * float(g.uniform(1.0, 4.0))
        if b_min < max(length, width) / 16.5 or b_max_x < b_min or b_max_y < b_min:
            continue
        if i % 11 == 7:
            # strip-shaped land: the short side is shorter than the largest spacing (single-row fields at the sparse end). Generator
            # exceptions on such land are counted like those of narrow windows; whatever lists it produces are judged
            long_side = float(round(g.uniform(40, 120), 1))
            b_min = float(round(g.uniform(3.0, 6.0), 1))
            b_max_x = float(round(b_min * g.uniform(1.6, 3.5), 1))
            b_max_y = float(round(b_min * g.uniform(1.6, 3.5), 1))
            short_side = float(round(g.uniform(0.4, 0.98) * min(b_max_x, b_max_y), 1))
            length, width = (long_side, short_side) if g.random() < 0.5 else (short_side, long_side)
            return {"length": length, "width": width, "b_min": b_min, "b_max_x": b_max_x, "b_max_y": b_max_y, "narrow": True, "strip": True}
        if i % 5 == 4:
            # narrow windows: b_max barely above b_min, so that often NO integer count fits on a side (the tool then produces an
            # empty list, or no list at all) - whatever fields it does produce are still judged
            b_max_x = b_min * float(g.uniform(1.0, 1.12))
            b_max_y = b_min * float(g.uniform(1.0, 1.12))
            ok = all(window_ok(L, b_min, bm, 3) for L in (length, width) for bm in (b_max_x, b_max_y))
            return {"length": length, "width": width, "b_min": b_min, "b_max_x": b_max_x, "b_max_y": b_max_y, "narrow": not ok}
        # non-degenerate: each direction admits an integer count in the window and >= 3 rows at max spacing
        if not (window_ok(length, b_min, b_max_x, 3) and window_ok(width, b_min, b_max_y, 3)):
            continue
        # the tool pairs b_max_x with the longer side and b_max_y with the shorter one in some paths; require the
        # window to be non-empty for every pairing so that the input is non-degenerate under either reading
        if not (window_ok(length, b_min, b_max_y, 3) and window_ok(width, b_min, b_max_x, 3)):
            continue
        return {"length": length, "width": width, "b_min": b_min, "b_max_x": b_max_x, "b_max_y": b_max_y}
    return {"length": 60.0, "width": 40.0, "b_min": 5.0, "b_max_x": 10.0, "b_max_y": 12.0}


def get_lists(method, lot):
    """Candidate lists exactly as a user's design object holds them."""
    from ghedesigner.manager import GHEManager

    m = GHEManager()
    if method == "NEARSQUARE":
        m.set_geometry_constraints_near_square(b=lot["b_min"], length=lot["length"])
    elif method == "RECTANGLE":
        m.set_geometry_constraints_rectangle(length=lot["length"], width=lot["width"], b_min=lot["b_min"], b_max=lot["b_max_x"])
    elif method == "BIRECTANGLE":
        m.set_geometry_constraints_bi_rectangle(
            length=lot["length"], width=lot["width"], b_min=lot["b_min"], b_max_x=lot["b_max_x"], b_max_y=lot["b_max_y"]
        )
    else:
        m.set_geometry_constraints_bi_zoned_rectangle(
            length=lot["length"], width=lot["width"], b_min=lot["b_min"], b_max_x=lot["b_max_x"], b_max_y=lot["b_max_y"]
        )
    m.set_design(flow_rate=0.5, flow_type_str="BOREHOLE")
    d = m._design
    if hasattr(d, "coordinates_domain_nested"):
        return [list(x) for x in d.coordinates_domain_nested]
    return [list(d.coordinates_domain)]


def min_pair_distance(pts: np.ndarray):
    n = len(pts)
    if n < 2:
        return math.inf
    if n <= 64:
        d = pts[:, None, :] - pts[None, :, :]
        dist = np.sqrt((d**2).sum(-1))
        dist[np.arange(n), np.arange(n)] = np.inf
        return float(dist.min())
    from scipy.spatial import cKDTree

    dd, _ = cKDTree(pts).query(pts, k=2)
    return float(dd[:, 1].min())


def judge_lot(method, lot, lists):
    out = []
    L, W, b_min = lot["length"], lot["width"], lot["b_min"]
    eps = 1e-9 * max(L, W)
    orient = "length<width" if L < W else ("length=width" if L == W else "length>width")
    n_fields = 0
    big = 0
    for li, fields in enumerate(lists):
        prev_count = 0
        for fi, field in enumerate(fields):
            n_fields += 1
            pts = np.asarray(field, dtype=float).reshape(-1, 2)
            cnt = len(pts)
            if cnt >= 4:
                big += 1
            if method != "NEARSQUARE":
                if pts[:, 0].min() < -eps or pts[:, 0].max() > L + eps or pts[:, 1].min() < -eps or pts[:, 1].max() > W + eps:
                    out.append(
                        {
                            "mechanism": f"{method}:outside-land:{orient}",
                            "message": f"list {li} field {fi} ({cnt} bh): x in [{pts[:, 0].min():.6g},{pts[:, 0].max():.6g}] "
                            f"y in [{pts[:, 1].min():.6g},{pts[:, 1].max():.6g}] vs land {L} x {W}",
                            "list": li,
                            "field": fi,
                        }
                    )
            if len({(float(a), float(b)) for a, b in pts}) != cnt:
                out.append({"mechanism": f"{method}:coincident-boreholes", "message": f"list {li} field {fi}", "list": li, "field": fi})
            dmin = min_pair_distance(pts)
            if dmin < b_min * (1 - 1e-9):
                out.append(
                    {
                        "mechanism": f"{method}:spacing-below-b-min:{orient}",
                        "message": f"list {li} field {fi} ({cnt} bh): nearest pair {dmin:.9g} < b_min {b_min:.9g}",
                        "list": li,
                        "field": fi,
                        "dmin": dmin,
                    }
                )
            if method == "NEARSQUARE":
                b = b_min
                n = fi // 2 + 1
                j = fi % 2
                exp = [(x * b, y * b) for x in range(n) for y in range(n + j)]
                if [(float(a), float(c)) for a, c in pts] != [(float(a), float(c)) for a, c in exp] or (n - 1) * b > L * (1 + 1e-12):
                    out.append({"mechanism": "NEARSQUARE:not-the-n-by-n-grid", "message": f"field {fi}: expected {n}x{n + j} grid at b={b}", "field": fi})
            if method in ("NEARSQUARE", "RECTANGLE", "BIRECTANGLE"):
                if cnt < prev_count:
                    out.append(
                        {
                            "mechanism": f"{method}:counts-decrease",
                            "message": f"list {li}: field {fi} has {cnt} boreholes after {prev_count}",
                            "list": li,
                            "field": fi,
                        }
                    )
                prev_count = cnt
    if method == "NEARSQUARE":
        n_exp = 2 * (math.floor(L / b_min) + 1)
        if len(lists[0]) != n_exp:
            out.append({"mechanism": "NEARSQUARE:wrong-number-of-candidates", "message": f"{len(lists[0])} fields, expected {n_exp}"})
    return out, n_fields, big


def run_shard(spec):
    g = rng(spec["seed"], PROP, spec["shard"])
    res = {"lots": 0, "fields": 0, "viol": [], "nontrivial": [], "orient": {"lt": 0, "eq": 0, "gt": 0}, "samples": [], "per_method": {}}
    for i in range(spec["n"]):
        lot = draw_lot(g, i)
        res["lots"] += 1
        o = "lt" if lot["length"] < lot["width"] else ("eq" if lot["length"] == lot["width"] else "gt")
        res["orient"][o] += 1
        for method in METHODS:
            try:
                lists = get_lists(method, lot)
            except Exception as e:  # noqa: BLE001
                if lot.get("narrow"):
                    res["narrow_window_exceptions"] = res.get("narrow_window_exceptions", 0) + 1  # degenerate input: nothing to judge
                    continue
                res["viol"].append({"mechanism": f"{method}:exception:{type(e).__name__}", "message": str(e)[:200], "lot": lot, "method": method})
                continue
            if lot.get("narrow"):
                res["narrow_window_lots_judged"] = res.get("narrow_window_lots_judged", 0) + 1
            if lot.get("strip"):
                res["strip_lot_methods_judged"] = res.get("strip_lot_methods_judged", 0) + 1
            v, nf, big = judge_lot(method, lot, lists)
            res["fields"] += nf
            res["per_method"][method] = res["per_method"].get(method, 0) + nf
            if nf >= 3 and big >= 1:
                res["nontrivial"].append([method] + [round(lot[k], 6) for k in ("length", "width", "b_min", "b_max_x", "b_max_y")])
            seen = set()
            for x in v:
                if x["mechanism"] in seen:
                    continue
                seen.add(x["mechanism"])
                res["viol"].append({**x, "lot": lot, "method": method})
        if len(res["samples"]) < 1:
            res["samples"].append({"lot": lot, "fields_in_bi_zoned_list": len(lists[0]) if lists else 0})
    return res


def check(tier, seed):
    n = {"quick": 2400, "thorough": 32000}[tier]
    specs = [{"seed": seed, "shard": s, "n": n // NSHARDS} for s in range(NSHARDS)]
    results = run_pool("vf.props.C03", specs, timeout=3600)
    rep = Report(PROP)
    rep.rule = (
        "lot = (length, width, b_min, b_max_x, b_max_y) with length <,=,> width, integer / one-decimal / real sides, exact-divisor, "
        "integer and real spacing windows, non-degenerate (each direction admits an integer count in [b_min,b_max] and >= 3 rows at "
        "max spacing) except every 5th lot, which has a narrow window b_max <= 1.12 b_min where often no integer count fits (fields the tool "
        "still produces are judged, exceptions there are counted); every field of every list of NEARSQUARE, RECTANGLE, BIRECTANGLE, BIZONEDRECTANGLE designs is judged. "
        "non-trivial = (method, lot) whose lists hold >= 3 fields and >= 1 field with >= 4 boreholes; distinct by rounded inputs."
    )
    orient = {"lt": 0, "eq": 0, "gt": 0}
    for r in results:
        if "_harness_error" in r:
            rep.inconclusive.append("shard failed: " + r["_harness_error"][:300])
            continue
        rep.evaluations += r["lots"] * len(METHODS)
        rep.count("fields_judged", r["fields"])
        for k in orient:
            orient[k] += r["orient"][k]
        for nt in r["nontrivial"]:
            rep.nontrivial(nt)
        for s in r["samples"]:
            rep.sample(s)
        for m, c in r["per_method"].items():
            rep.count("fields_" + m, c)
        rep.count("narrow_window_lot_methods_judged", r.get("narrow_window_lots_judged", 0))
        rep.count("strip_lot_methods_judged", r.get("strip_lot_methods_judged", 0))
        rep.count("narrow_window_exceptions_not_judged", r.get("narrow_window_exceptions", 0))
        for v in r["viol"]:
            rep.violate(v["mechanism"], f"{v['method']} lot {v['lot']}: {v['message']}", {"lot": v["lot"], "method": v["method"], "list": v.get("list"), "field": v.get("field")})
    rep.extra["lots_by_orientation"] = orient
    if min(orient.values()) == 0:
        rep.inconclusive.append(f"an orientation class was never generated: {orient}")
    rep.assumptions = ["degenerate windows (no integer count between the spacings, or < 3 rows at max spacing) are not generated"]
    return rep


def replay(w):
    wit = w["witness"]
    rep = Report(PROP)
    rep.evaluations = 1
    rep.nontrivial_count = 2
    rep.rule = "replay of one witness"
    rep.sample(wit)
    lists = get_lists(wit["method"], wit["lot"])
    v, _, _ = judge_lot(wit["method"], wit["lot"], lists)
    for x in v[:5]:
        rep.violate(x["mechanism"], x["message"], wit)
    return rep
