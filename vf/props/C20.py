"""C20 - per-borehole and system flow specifications are equivalent.

Monitors: wrappers on Bisection1D.retrieve_flow, RowWiseModifiedBisectionSearch.retrieve_flow and BaseGHE.__init__
          (flow type, N, V, m_dot per borehole for every evaluation a search makes).
Oracle  : flow algebra (m = V[L/s] rho / 1000, system flow / N), paired evaluation of one field with v per borehole and
          N v for the system (m_dot, Rb*, all temperatures equal to 1e-10), m_dot N constant along a SYSTEM search.
"""
from __future__ import annotations

import math
import warnings

import numpy as np

from vf.common import Report, rng
from vf.gen import ghe as GG
from vf.gen import loads as GL
from vf.gen import phys as GP
from vf.pool import run_pool

PROP = "C20"
NSHARDS = 16


class FlowTap:
    def __init__(self):
        import ghedesigner.search_routines as sr
        from ghedesigner.ground_heat_exchangers import BaseGHE

        self.events = []
        self.hits = {"retrieve_flow_1d": 0, "retrieve_flow_rowwise": 0, "BaseGHE.__init__": 0}
        self._orig = (sr.Bisection1D.retrieve_flow, sr.RowWiseModifiedBisectionSearch.retrieve_flow, BaseGHE.__init__)
        self._cls = (sr.Bisection1D, sr.RowWiseModifiedBisectionSearch, BaseGHE)
        tap = self

        def mk(orig, key):
            def retrieve_flow(self_, coordinates, rho, *a_, **kw_):
                r = orig(self_, coordinates, rho, *a_, **kw_)
                tap.hits[key] += 1
                tap.events.append({"ev": "retrieve", "type": self_.flow_type.name, "V": self_.V_flow, "N": len(coordinates), "rho": rho,
                                   "v_sys": r[0], "m_bh": r[1]})
                return r

            return retrieve_flow

        sr.Bisection1D.retrieve_flow = mk(self._orig[0], "retrieve_flow_1d")
        sr.RowWiseModifiedBisectionSearch.retrieve_flow = mk(self._orig[1], "retrieve_flow_rowwise")
        orig_init = self._orig[2]

        def init(self_, v_flow_system, b_spacing, bhe_type, fluid, *a, **kw):
            orig_init(self_, v_flow_system, b_spacing, bhe_type, fluid, *a, **kw)
            tap.hits["BaseGHE.__init__"] += 1
            tap.events.append({"ev": "ghe", "v_sys": v_flow_system, "N": self_.nbh, "m_bh": self_.m_flow_borehole,
                               "m_bhe": self_.bhe.m_flow_borehole, "rho": fluid.rho})

        BaseGHE.__init__ = init

    def pop(self):
        e = self.events
        self.events = []
        return e

    def uninstall(self):
        self._cls[0].retrieve_flow = self._orig[0]
        self._cls[1].retrieve_flow = self._orig[1]
        self._cls[2].__init__ = self._orig[2]


def judge_events(events, out, case):
    """Flow algebra on every recorded event; pairing of each search evaluation with the GHE it built."""
    last_retrieve = None
    for e in events:
        if e["ev"] == "retrieve":
            if e["type"] == "BOREHOLE":
                exp_m = e["V"] * e["rho"] / 1000.0
                exp_sys = e["V"] * e["N"]
            else:
                exp_m = e["V"] / e["N"] * e["rho"] / 1000.0
                exp_sys = e["V"]
            if abs(e["m_bh"] - exp_m) > 1e-12 * abs(exp_m):
                out.append({"mechanism": f"mass-flow-per-borehole-wrong:{e['type']}", "message": f"N={e['N']} V={e['V']}: m={e['m_bh']} expected {exp_m}", "case": case})
            if abs(e["v_sys"] - exp_sys) > 1e-12 * abs(exp_sys):
                out.append({"mechanism": f"system-flow-wrong:{e['type']}", "message": f"N={e['N']} V={e['V']}: system flow {e['v_sys']} expected {exp_sys}", "case": case})
            last_retrieve = e
        else:
            exp_m = e["v_sys"] / e["N"] * e["rho"] / 1000.0
            if abs(e["m_bh"] - exp_m) > 1e-12 * abs(exp_m) or abs(e["m_bhe"] - e["m_bh"]) > 1e-12 * abs(exp_m):
                out.append({"mechanism": "ghe-object-mass-flow-wrong", "message": f"N={e['N']} system {e['v_sys']}: m={e['m_bh']}/{e['m_bhe']} expected {exp_m}", "case": case})
            if last_retrieve is not None and last_retrieve["N"] == e["N"]:
                if abs(e["m_bh"] - last_retrieve["m_bh"]) > 1e-10 * abs(e["m_bh"]):
                    out.append({"mechanism": "ghe-flow-differs-from-search-flow", "message": f"N={e['N']}: GHE m={e['m_bh']} vs search m={last_retrieve['m_bh']}", "case": case})


def make_search(kind, flow_type, v, ph, H, loads, n_months, fields):
    from ghedesigner.enums import FlowConfigType, TimestepType
    from ghedesigner.geometry import GeometricConstraintsRowWise
    from ghedesigner.search_routines import Bisection1D, RowWiseModifiedBisectionSearch
    from ghedesigner.simulation import SimulationParameters

    pt, fluid, bh, pipe, grout, soil = GP.bhe_objects(ph, H)
    sp = SimulationParameters(1, n_months, 35.0, 5.0, H * 1.3, H * 0.7)
    ft = FlowConfigType.BOREHOLE if flow_type == "BOREHOLE" else FlowConfigType.SYSTEM
    if kind == "1d":
        return Bisection1D(fields, [f"f{i}" for i in range(len(fields))], v, bh, pt, fluid, pipe, grout, soil, sp, loads,
                           method=TimestepType.HYBRID, flow_type=ft, search=False, field_type="verif")
    gc = GeometricConstraintsRowWise(None, 5.0, 10.0, 1.0, -1.0, 0.0, 5.0, [[0, 0], [50, 0], [50, 50], [0, 50]], [])
    return RowWiseModifiedBisectionSearch(v, bh, pt, fluid, pipe, grout, soil, sp, loads, gc, method=TimestepType.HYBRID, flow_type=ft,
                                          search=False, field_type="verif")


def run_case(tap, g, idx, res):
    arr = GP.PIPES[idx % 4]
    ph = GP.draw_phys(g, arr)
    H = float(round(g.uniform(40, 250), 1))
    v = GP.draw_flow(g, arr)
    n_months = int(g.choice([12, 24, 60]))
    desc = GL.draw_desc(g, scale=0.2)
    loads = GL.make_loads(desc)
    kind = "1d" if idx % 3 else "rowwise"
    b = float(round(g.uniform(4, 8), 1))
    dims = [(1, 1), (1, 2), (2, 2), (2, 3), (3, 3), (3, 4), (4, 5)]
    pick = sorted(g.choice(len(dims), 3, replace=False))
    fields = [GG.grid(*dims[i], b) for i in pick]
    case = {"kind": kind, "phys": ph, "H": H, "v": v, "fields": [dims[i] for i in pick], "loads": desc, "n_months": n_months}
    out = []
    tap.pop()
    with warnings.catch_warnings():
        warnings.simplefilter("ignore")
        sB = make_search(kind, "BOREHOLE", v, ph, H, loads, n_months, fields)
        # (a) direct retrieve_flow calls over N = 1..400 on the real instance
        rho = sB.ghe.bhe.fluid.rho if kind == "1d" else sB.fluid.rho
        for n in [1, 2, 3, 7, 16, 49, 100, 144, 256, 399, 400] + [int(x) for x in g.integers(1, 401, 20)]:
            sB.retrieve_flow([(0.0, float(i)) for i in range(n)], rho)
        res["direct_calls"] += 31
        # (b) paired evaluation of one field: v per borehole vs N v for the system
        f = fields[int(g.integers(0, len(fields)))]
        n = len(f)
        sS = make_search(kind, "SYSTEM", v * n, ph, H, loads, n_months, fields)
        for nn in [1, 5, 12, 77, 400]:
            sS.retrieve_flow([(0.0, float(i)) for i in range(nn)], rho)
        eB = sB.calculate_excess(f, H, field_specifier="pairB")
        gB = sB.ghe
        eS = sS.calculate_excess(f, H, field_specifier="pairS")
        gS = sS.ghe
    ev = tap.pop()
    judge_events(ev, out, case)
    mB, mS = gB.bhe.m_flow_borehole, gS.bhe.m_flow_borehole
    if abs(mB - mS) > 1e-10 * abs(mB):
        out.append({"mechanism": "paired-mass-flow-differs", "message": f"N={n}: BOREHOLE(v) m={mB} vs SYSTEM(N v) m={mS}", "case": case})
    rB, rS = gB.bhe.calc_effective_borehole_resistance(), gS.bhe.calc_effective_borehole_resistance()
    if abs(rB - rS) > 1e-10 * abs(rB):
        out.append({"mechanism": "paired-borehole-resistance-differs", "message": f"N={n}: Rb* {rB} vs {rS}", "case": case})
    tB, tS = np.asarray(gB.hp_eft, dtype=float), np.asarray(gS.hp_eft, dtype=float)
    span = max(1.0, float(np.max(np.abs(tB))))
    if tB.shape != tS.shape or float(np.max(np.abs(tB - tS))) > 1e-10 * span:
        out.append({"mechanism": "paired-temperatures-differ", "message": f"N={n}: max |dT| = {float(np.max(np.abs(tB - tS))) if tB.shape == tS.shape else 'shape'}", "case": case})
    if abs(eB - eS) > 1e-10 * span:
        out.append({"mechanism": "paired-excess-differs", "message": f"N={n}: excess {eB} vs {eS}", "case": case})
    res["paired"] += 1
    # (c) along a SYSTEM search: m_dot N constant
    if idx % 2 == 0:
        tap.pop()
        with warnings.catch_warnings():
            warnings.simplefilter("ignore")
            sS2 = make_search(kind, "SYSTEM", v * 6, ph, H, loads, n_months, fields)
            tap.pop()
            for fi, fld in enumerate(fields):
                sS2.calculate_excess(fld, H, field_specifier=f"sys{fi}")
        ev = tap.pop()
        judge_events(ev, out, case)
        prods = [e["m_bh"] * e["N"] for e in ev if e["ev"] == "ghe"]
        ns = [e["N"] for e in ev if e["ev"] == "ghe"]
        ms = [e["m_bh"] for e in ev if e["ev"] == "ghe"]
        if len(prods) != len(fields):
            out.append({"mechanism": "monitor-missed-evaluations", "message": f"{len(prods)} GHE constructions for {len(fields)} evaluations", "case": case})
        elif max(prods) - min(prods) > 1e-10 * max(prods):
            out.append({"mechanism": "system-flow-not-shared-as-1-over-N", "message": f"m_dot N along the list: {prods}", "case": case})
        elif any(m2 >= m1 for (m1, n1), (m2, n2) in zip(zip(ms, ns), list(zip(ms, ns))[1:]) if n2 > n1):
            out.append({"mechanism": "per-borehole-flow-does-not-decrease-with-N", "message": f"N {ns} m {ms}", "case": case})
        res["system_lists"] += 1
    return out, case


def run_shard(spec):
    if "cfgs" in spec:
        from vf.scenario import run_shard as rs

        return rs(spec)
    g = rng(spec["seed"], PROP, spec["shard"])
    tap = FlowTap()
    res = {"cases": 0, "viol": [], "nontrivial": [], "samples": [], "direct_calls": 0, "paired": 0, "system_lists": 0}
    for i in range(spec["n"]):
        idx = spec["shard"] * 1000 + i
        try:
            out, case = run_case(tap, g, idx, res)
        except Exception as e:  # noqa: BLE001
            import traceback

            res["viol"].append({"mechanism": f"exception:{type(e).__name__}", "message": traceback.format_exc()[-600:], "case": {}})
            continue
        res["cases"] += 1
        res["nontrivial"].append([case["kind"], case["v"], case["H"], case["fields"]])
        res["viol"].extend(out[:6])
        if not res["samples"]:
            res["samples"].append(case)
    # ---- one manager, set_design() called twice with the two kinds of specification (a flow-rate study): the design run must use
    # the specification given last
    if spec["shard"] % 4 == 0:
        import contextlib
        import io
        import warnings

        from vf.gen import config as GC
        from vf.gen import loads as GL
        from vf.gen import phys as GP
        from vf.props import pool_common as PC

        for k in range(2):
            method = ["NEARSQUARE", "RECTANGLE", "BIRECTANGLE", "BIZONEDRECTANGLE"][(spec["shard"] // 4 + k) % 4]
            first, second = (("BOREHOLE", "SYSTEM"), ("SYSTEM", "BOREHOLE"))[k % 2]
            cfg = PC.make_cfg(g, method, GP.PIPES[(spec["shard"] + k) % 4], first, ["interior", "large"][k % 2], True, 36)
            cfg["simulation"]["num_months"] = 12
            cfg["loads_desc"]["scale"] = PC.scale_loads_for(cfg, cfg["_class"], g)
            v2 = float(round(g.uniform(0.25, 0.6), 3)) if second == "BOREHOLE" else float(round(g.uniform(4.0, 12.0), 2))
            case = {"kind": "manager-set_design-twice", "method": method, "first": [cfg["design"]["flow_rate"], first], "second": [v2, second]}
            try:
                with warnings.catch_warnings(), contextlib.redirect_stdout(io.StringIO()), contextlib.redirect_stderr(io.StringIO()):
                    warnings.simplefilter("ignore")
                    m = GC.build_manager(cfg, loads=GL.make_loads(cfg["loads_desc"]))
                    m.set_design(flow_rate=v2, flow_type_str=second)
                    tap.pop()
                    try:
                        m.find_design()
                    except ValueError:
                        pass
                ev = tap.pop()
            except Exception as e:  # noqa: BLE001
                res["viol"].append({"mechanism": f"exception:{type(e).__name__}", "message": str(e)[:300], "case": case})
                continue
            out2 = []
            judge_events(ev, out2, case)
            used = {(e["type"], e["V"]) for e in ev if e["ev"] == "retrieve"}
            if used and used != {(second, v2)}:
                out2.append({"mechanism": "design-run-uses-an-earlier-flow-specification", "message": f"{method}: set_design({cfg['design']['flow_rate']}, {first}) then set_design({v2}, {second}); the search used {sorted(used)[:3]}", "case": case})
            res["manager_twice"] = res.get("manager_twice", 0) + 1
            res["viol"].extend(out2[:4])
    res["hits"] = tap.hits
    tap.uninstall()
    return res


def check(tier, seed):
    n = {"quick": 96, "thorough": 960}[tier]
    specs = [{"seed": seed, "shard": s, "n": n // NSHARDS} for s in range(NSHARDS)]
    results = run_pool("vf.props.C20", specs, timeout=5400)
    rep = Report(PROP)
    rep.rule = (
        "case = (pipe type, media, H, design flow v 0.03-1.5 L/s, three small grid fields, generated loads) on the real Bisection1D or "
        "RowWiseModifiedBisectionSearch instance (search=False); plus the recorded flow events of every design run of the shared scenario pool: 31+5 direct retrieve_flow calls with N in 1..400, one paired evaluation "
        "(calculate_excess with v per borehole vs N v system) and, for every 2nd case, a SYSTEM evaluation of the whole list. "
        "non-trivial = every case (a paired evaluation of a multi-field list); distinct by (class, v, H, fields)."
    )
    hits = {}
    for r in results:
        if "_harness_error" in r:
            rep.inconclusive.append("shard failed: " + r["_harness_error"][:300])
            continue
        rep.evaluations += r["cases"]
        for k2 in ("direct_calls", "paired", "system_lists"):
            rep.count(k2, r[k2])
        rep.count("design_runs_after_two_set_design_calls_on_one_manager", r.get("manager_twice", 0))
        rep.evaluations += r.get("manager_twice", 0)
        for k2, v2 in r["hits"].items():
            hits[k2] = hits.get(k2, 0) + v2
        for nt in r["nontrivial"]:
            rep.nontrivial(nt)
        for s in r["samples"]:
            rep.sample(s)
        for v in r["viol"]:
            rep.violate(v["mechanism"], v["message"], {"case": v["case"]})
    # ---- flow events of every real design run of the shared scenario pool
    from vf.props import pool_common as PC

    recs, problems = PC.records(tier, seed)
    for p in problems:
        rep.inconclusive.append("scenario failed in the harness: " + p)
    pool_events = 0
    for rec in recs:
        fl = rec.get("flow")
        if not fl:
            continue
        rep.evaluations += 1
        pool_events += fl["events"]
        wit = {"scenario": rec["cfg"]}
        for v in fl["violations"]:
            rep.violate("design-run:" + v["mechanism"], f"{PC.method_of(rec)}: {v['message']}", wit)
        if fl.get("system_products") and len(fl["n_values"]) > 1:
            sp = fl["system_products"]
            if max(sp) - min(sp) > 1e-9 * max(sp):
                rep.violate("design-run:system-flow-not-shared-as-1-over-N", f"{PC.method_of(rec)}: m_dot N takes the values {sp[:5]} along the search (N in {fl['n_values'][:8]})", wit)
            rep.count("system_searches_with_several_field_sizes")
        if fl.get("borehole_flows") and len(fl["borehole_flows"]) > 1:
            bf = fl["borehole_flows"]
            if max(bf) - min(bf) > 1e-12 * max(bf):
                rep.violate("design-run:borehole-flow-changes-with-field-size", f"{PC.method_of(rec)}: per-borehole mass flow takes the values {bf[:5]}", wit)
        rep.nontrivial(["pool", rec["key"]])
    rep.extra["design_run_flow_events"] = pool_events
    rep.extra["monitor_hits"] = hits
    for k2 in ("retrieve_flow_1d", "retrieve_flow_rowwise", "BaseGHE.__init__"):
        if hits.get(k2, 0) == 0:
            rep.inconclusive.append(f"monitor {k2} never reached")
    rep.assumptions = ["N v / N is compared at 1e-10 relative (not bit-exact)", "fluid density from pygfunction's property tables"]
    return rep


def replay(w):
    rep = Report(PROP)
    rep.rule = "replay not supported for C20 witnesses (cases are regenerated from seed/shard); rerun with the same VERIF_SEED"
    rep.evaluations = 1
    rep.nontrivial_count = 2
    rep.sample(w.get("witness", {}))
    return rep
