"""C16 - point_polygon_check is the exact crossing-number classification with the documented edge tolerance.

Monitor: icontract post-condition (recording, named function) on the real ghedesigner.shape.point_polygon_check.
Oracle : rational/integer crossing number + exact on-segment test + 50-digit distance-sum excess (vf.oracle.polygon).
Workload: exhaustive small scope (all simple 3..5-gons [quick] / 3..6-gons [thorough] on the 4x4 lattice, both
          orientations, every rotation class once, x 81 half-integer points) + random real-valued simple polygons.
"""
from __future__ import annotations

import itertools
import math

import numpy as np

from vf.common import Report, rng
from vf.oracle import polygon as O
from vf.pool import run_pool

PROP = "C16"
NSHARDS = 16
TOLS = (0.001, 0.01)


# ------------------------------------------------------------------ monitor
class PostBroken(Exception):
    pass


def install_contract(log):
    """Put a recording post-condition on the real function; returns the contracted callable."""
    import icontract

    import ghedesigner.shape as shape

    def classification_is_exact(contour, point, on_edge_tolerance, result):
        log["evals"] += 1
        exp = log["oracle"](contour, point, on_edge_tolerance)
        if exp is None:
            log["guard_skipped"] += 1
            return True
        if exp != result:
            if len(log["bad"]) < 20:
                log["bad"].append(
                    {
                        "contour": [list(map(float, v)) for v in contour],
                        "point": list(map(float, point)),
                        "tol": on_edge_tolerance,
                        "got": int(result),
                        "expected": int(exp),
                    }
                )
            log["nbad"] += 1
        return True

    orig = shape.point_polygon_check
    if getattr(orig, "_vf_contracted", False):
        orig = orig._vf_orig
    checked = icontract.ensure(classification_is_exact, error=PostBroken)(orig)
    checked._vf_contracted = True
    checked._vf_orig = orig
    return checked


# ------------------------------------------------------------------ lattice scope
def lattice_oracle_factory():
    """Oracle for integer polygons / half-integer points: everything scaled by 2 to integers."""
    cache = {}

    def oracle(contour, point, tol):
        key = id(contour)
        ent = cache.get(key)
        if ent is None or ent[0] is not contour:
            ent = (contour, [(int(2 * x), int(2 * y)) for x, y in contour])
            cache.clear()
            cache[key] = ent
        poly2 = ent[1]
        p2 = (int(round(2 * point[0])), int(round(2 * point[1])))
        n = len(poly2)
        for i in range(n):
            if O.on_segment_exact(poly2[i - 1], poly2[i], p2):
                return 0
        return 1 if O.crossing_inside_exact(poly2, p2) else -1

    return oracle


def lattice_polygons(nv, shard, nshards, size=4):
    verts = [(x, y) for x in range(size) for y in range(size)]
    k = 0
    for first in range(len(verts)):
        rest = [i for i in range(len(verts)) if i > first]
        for perm in itertools.permutations(rest, nv - 1):
            k += 1
            if k % nshards != shard:
                continue
            poly = [verts[first]] + [verts[i] for i in perm]
            if O.is_simple(poly):
                yield poly


def run_lattice(spec):
    nv_list, shard, nshards = spec["nv"], spec["shard"], spec["nshards"]
    log = {"evals": 0, "bad": [], "nbad": 0, "guard_skipped": 0, "oracle": lattice_oracle_factory()}
    f = install_contract(log)
    pts = [(x / 2.0, y / 2.0) for x in range(-1, 8) for y in range(-1, 8)]
    npoly = 0
    nontrivial = 0
    min_excess = math.inf
    classes = {-1: 0, 0: 0, 1: 0}
    sample = None
    forms_seen = {}
    for nv in nv_list:
        for poly in lattice_polygons(nv, shard, nshards):
            npoly += 1
            if sample is None:
                sample = {"polygon": poly, "n_points": len(pts)}
            ys = {v[1] for v in poly}
            # the polygon, not its container, is what the classification is about: lists of tuples, lists of lists and numpy arrays
            # (integer and float) are all forms in which the repository itself holds outlines
            form = npoly % 4
            forms_seen[form] = forms_seen.get(form, 0) + 1
            poly_arg = [poly, np.asarray(poly, dtype=np.int64), np.asarray(poly, dtype=float), [list(v) for v in poly]][form]
            for p in pts:
                for tol in TOLS if npoly % 7 == 0 else TOLS[:1]:
                    r = f(poly_arg, p, on_edge_tolerance=tol)
                    classes[r] += 1
                # non-trivial: level with a vertex or collinear with an edge (not on it)
                if p[1] in ys:
                    nontrivial += 1
            # sanity of the scope assumption: smallest non-zero distance-sum excess is far above the tolerance
            if npoly % 50 == 0:
                for p in pts:
                    for i in range(len(poly)):
                        a, b = poly[i - 1], poly[i]
                        ex = math.dist(a, p) + math.dist(b, p) - math.dist(a, b)
                        if ex > 1e-12:
                            min_excess = min(min_excess, ex)
    return {
        "kind": "lattice",
        "container_forms": {["list-of-tuples", "int-array", "float-array", "list-of-lists"][k]: v for k, v in forms_seen.items()},
        "polygons": npoly,
        "evals": log["evals"],
        "nbad": log["nbad"],
        "bad": log["bad"],
        "nontrivial": nontrivial,
        "min_nonzero_excess": min_excess if min_excess < math.inf else None,
        "classes": {str(k): v for k, v in classes.items()},
        "sample": sample,
    }


# ------------------------------------------------------------------ random real-valued scope
def random_polygon(g: np.random.Generator):
    kind = g.integers(0, 4)
    scale = float(10 ** g.uniform(0, 2.5))
    ox, oy = (float(g.uniform(0, 50)), float(g.uniform(0, 50))) if g.random() < 0.7 else (0.0, 0.0)
    if kind == 0:  # convex: points on an ellipse
        n = int(g.integers(3, 12))
        ang = np.sort(g.uniform(0, 2 * math.pi, n))
        a, b = scale, scale * g.uniform(0.3, 1.0)
        poly = [(ox + a + a * math.cos(t), oy + b + b * math.sin(t)) for t in ang]
    elif kind == 1:  # star-shaped, non-convex
        n = int(g.integers(4, 16))
        ang = np.sort(g.uniform(0, 2 * math.pi, n))
        rad = g.uniform(0.25, 1.0, n) * scale
        poly = [(ox + scale + r * math.cos(t), oy + scale + r * math.sin(t)) for r, t in zip(rad, ang)]
    elif kind == 2:  # orthogonal staircase (L/U-like lots), many collinear/level situations
        n = int(g.integers(2, 6))
        xs = np.cumsum(g.integers(1, 6, n + 1)).astype(float) * scale / 10
        hs = g.integers(1, 8, n + 1).astype(float) * scale / 10
        poly = [(ox + float(xs[0]) - scale / 10, oy)]
        x_prev = float(xs[0]) - scale / 10
        for i in range(n + 1):
            poly.append((ox + x_prev, oy + float(hs[i])))
            poly.append((ox + float(xs[i]), oy + float(hs[i])))
            x_prev = float(xs[i])
        poly.append((ox + x_prev, oy))
        # remove consecutive duplicates / zero-length edges
        ded = []
        for v in poly:
            if not ded or ded[-1] != v:
                ded.append(v)
        poly = ded
    else:  # integer-coordinate star polygon (exact ties with integer test points)
        n = int(g.integers(4, 10))
        ang = np.sort(g.uniform(0, 2 * math.pi, n))
        rad = g.uniform(0.3, 1.0, n) * 20
        poly = [(float(round(25 + r * math.cos(t))), float(round(25 + r * math.sin(t)))) for r, t in zip(rad, ang)]
    if g.random() < 0.5:
        poly = poly[::-1]
    k = int(g.integers(0, len(poly)))
    poly = poly[k:] + poly[:k]
    if not O.is_simple(poly):
        return None
    if g.random() < 0.15:
        poly = poly + [poly[0]]  # closed ring as the tool's own test data and CSV files use
    return poly


def test_points(g, poly, tol):
    xs = [v[0] for v in poly]
    ys = [v[1] for v in poly]
    w = max(xs) - min(xs)
    h = max(ys) - min(ys)
    pts = []
    for _ in range(10):
        pts.append((float(g.uniform(min(xs) - 0.2 * w, max(xs) + 0.2 * w)), float(g.uniform(min(ys) - 0.2 * h, max(ys) + 0.2 * h))))
    n = len(poly)
    for _ in range(6):  # level with a vertex
        v = poly[int(g.integers(0, n))]
        pts.append((float(g.uniform(min(xs) - 0.2 * w, max(xs) + 0.2 * w)), v[1]))
    for _ in range(3):  # same x as a vertex
        v = poly[int(g.integers(0, n))]
        pts.append((v[0], float(g.uniform(min(ys) - 0.2 * h, max(ys) + 0.2 * h))))
    for _ in range(8):  # relative to an edge: on it, beyond its ends (collinear), slightly off it
        i = int(g.integers(0, n))
        a, b = poly[i - 1], poly[i]
        if a == b:
            continue
        t = float(g.choice([0.0, 1.0, 0.5, g.uniform(0, 1), -g.uniform(0.05, 0.8), 1 + g.uniform(0.05, 0.8)]))
        px, py = a[0] + t * (b[0] - a[0]), a[1] + t * (b[1] - a[1])
        L = math.dist(a, b)
        nx, ny = -(b[1] - a[1]) / L, (b[0] - a[0]) / L
        # offset chosen so that the distance-sum excess lands clearly below or clearly above the tolerance
        d = float(g.choice([0.0, 0.0, 1e-9, 0.3, 3.0, 10.0])) * math.sqrt(tol * L / 2) * float(g.choice([-1, 1]))
        pts.append((px + d * nx, py + d * ny))
    pts.append(poly[int(g.integers(0, n))])  # a vertex itself
    return pts


def run_random(spec):
    g = rng(spec["seed"], PROP, spec["shard"])
    log = {"evals": 0, "bad": [], "nbad": 0, "guard_skipped": 0, "oracle": lambda c, p, t: O.classify([tuple(map(float, v)) for v in c], p, t)}
    f = install_contract(log)
    npoly = 0
    nontrivial = 0
    classes = {-1: 0, 0: 0, 1: 0}
    sample = None
    kinds = 0
    forms_seen = {}
    while npoly < spec["n"]:
        poly = random_polygon(g)
        if poly is None:
            continue
        npoly += 1
        tol = float(g.choice(TOLS))
        ys = {v[1] for v in poly}
        form = npoly % 4
        forms_seen[form] = forms_seen.get(form, 0) + 1
        poly_arg = [poly, np.asarray(poly, dtype=float), tuple(tuple(v) for v in poly), [list(v) for v in poly]][form]
        for p in test_points(g, poly, tol):
            r = f(poly_arg, p, on_edge_tolerance=tol)
            classes[r] += 1
            if p[1] in ys or abs(float(O.min_edge_excess(poly, p))) < 50 * tol:
                nontrivial += 1
        if sample is None:
            sample = {"polygon": poly, "tol": tol}
    return {
        "kind": "random",
        "container_forms": {["as-generated", "float-array", "tuple-of-tuples", "list-of-lists"][k]: v for k, v in forms_seen.items()},
        "polygons": npoly,
        "evals": log["evals"],
        "nbad": log["nbad"],
        "bad": log["bad"],
        "guard_skipped": log["guard_skipped"],
        "nontrivial": nontrivial,
        "classes": {str(k): v for k, v in classes.items()},
        "sample": sample,
    }


def run_shard(spec):
    return run_lattice(spec) if spec["kind"] == "lattice" else run_random(spec)


# ------------------------------------------------------------------ plan / judge
def check(tier, seed):
    nv = [3, 4, 5] if tier == "quick" else [3, 4, 5, 6]
    n_random = 320 if tier == "quick" else 6500
    specs = [{"kind": "lattice", "nv": nv, "shard": s, "nshards": NSHARDS} for s in range(NSHARDS)]
    specs += [{"kind": "random", "seed": seed, "shard": s, "n": n_random} for s in range(NSHARDS)]
    results = run_pool("vf.props.C16", specs, timeout=3600)
    return judge(results, nv, tier, seed)


def judge(results, nv, tier="quick", seed=0):
    rep = Report(PROP)
    rep.rule = (
        "lattice: every simple polygon (non-zero area, no touching edges, collinear vertices allowed) with "
        f"{nv} vertices on the 4x4 integer lattice, one per rotation class, both orientations, x 81 half-integer "
        "points, tolerance 0.001 (and 0.01 for every 7th polygon); random: convex/star/orthogonal/integer-star "
        "polygons with points level with vertices, collinear with edges, on edges and at controlled distances; polygons handed over as lists of "
        "tuples, lists of lists, tuples of tuples, integer and float numpy arrays in rotation. "
        "non-trivial = (polygon, point) pair whose point is level with a vertex (same y) or within 50 tolerances "
        "of an edge; distinct by construction (distinct polygons or distinct points)."
    )
    rep.exhaustive = True
    lat_polys = 0
    min_ex = math.inf
    classes = {"-1": 0, "0": 0, "1": 0}
    nontriv = 0
    for r in results:
        if "_harness_error" in r:
            rep.inconclusive.append(f"shard failed: {r['_harness_error'][:300]}")
            continue
        rep.evaluations += r["evals"]
        nontriv += r["nontrivial"]
        for k, v in r["classes"].items():
            classes[k] += v
        if r["kind"] == "lattice":
            lat_polys += r["polygons"]
            if r.get("min_nonzero_excess") is not None:
                min_ex = min(min_ex, r["min_nonzero_excess"])
        else:
            rep.count("random_polygons", r["polygons"])
            rep.count("guard_band_skipped", r["guard_skipped"])
        for fk, fv in r.get("container_forms", {}).items():
            rep.count("polygons_passed_as_" + fk, fv)
        if r.get("sample"):
            rep.sample({"kind": r["kind"], **r["sample"]})
        for b in r["bad"]:
            mech = "misclassified:" + {(-1): "outside", 0: "edge", 1: "inside"}[b["expected"]] + "-as-" + {(-1): "outside", 0: "edge", 1: "inside"}[b["got"]]
            rep.violate(mech, f"point {b['point']} vs polygon of {len(b['contour'])} vertices: got {b['got']} expected {b['expected']}", b)
        if r["nbad"] > len(r["bad"]):
            rep.count("additional_mismatches_not_listed", r["nbad"] - len(r["bad"]))
    rep.extra["lattice_polygons"] = lat_polys
    from vf.props import pool_common as _PC

    _PC.add_workload_monitor_results(rep, PROP, tier, seed)
    rep.extra["classes_returned"] = classes
    rep.extra["lattice_min_nonzero_excess"] = None if min_ex == math.inf else min_ex
    rep.extra["nontrivial_pairs"] = nontriv
    # distinct_nontrivial is the measured count of non-trivial pairs (each pair is distinct by construction)
    rep.nontrivial_count = nontriv
    if min_ex != math.inf and min_ex < 1.1 * max(TOLS):
        # in the lattice scope "within tolerance of a segment" must coincide with "exactly on the segment"
        rep.inconclusive.append("lattice scope assumption broken: a non-zero excess lies below 1.1 x the tolerance")
    if rep.evaluations == 0:
        rep.inconclusive.append("contract never evaluated")
    if min(classes.values()) == 0:
        rep.inconclusive.append(f"a result class was never observed: {classes}")
    rep.assumptions = [
        "oracle = crossing number in exact integer/rational arithmetic; on-edge = exact on-segment or 50-digit distance-sum excess < tolerance",
        "random scope: points whose excess lies in [0.5,2] x tolerance are not judged (guard band)",
    ]
    return rep


def replay(w):
    rep = Report(PROP)
    wit = w["witness"]
    from ghedesigner.shape import point_polygon_check

    got = point_polygon_check(wit["contour"], wit["point"], on_edge_tolerance=wit["tol"])
    exp = O.classify(wit["contour"], wit["point"], wit["tol"])
    rep.evaluations = 1
    rep.nontrivial_count = 2
    rep.rule = "replay of one witness"
    rep.sample(wit)
    if exp is not None and got != exp:
        rep.violate(w["mechanism"], f"replayed: got {got} expected {exp}", wit)
    return rep
