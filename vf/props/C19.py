"""C19 - output tables label time correctly and echo inputs, selected field and the simulated curve.

Monitors: recording icontract post-conditions on OutputManager.ghe_time_convert / hours_to_month (exhaustive calendar scopes), and table
          checks on the OutputManager of every design run of the scenario pool (Loadings, BoreFieldData, Gfunction rows).
Oracle  : datetime arithmetic of the non-leap year 2019; closed-form piecewise-linear month function; the inputs themselves.
"""
from __future__ import annotations

import datetime as dt
import math

from vf.common import Report
from vf.pool import run_pool
from vf.props import pool_common as PC

PROP = "C19"
MONTH_H = [24 * d for d in [31, 28, 31, 30, 31, 30, 31, 31, 30, 31, 30, 31]]
CUM = [0]
for _h in MONTH_H:
    CUM.append(CUM[-1] + _h)


class PostBroken(Exception):
    pass


def months_oracle(t):
    y = math.floor(t / 8760.0)
    rem = t - 8760.0 * y
    if rem == 0:
        return 12.0 * y
    m = 0
    while CUM[m + 1] < rem:
        m += 1
    return 12.0 * y + m + (rem - CUM[m]) / MONTH_H[m]


def install(log):
    import icontract

    from ghedesigner.output import OutputManager

    t0 = dt.datetime(2019, 1, 1)

    def label_matches_calendar(hours, result):
        log["time_convert"] += 1
        if isinstance(hours, int) and 0 <= hours < 8760:
            d = t0 + dt.timedelta(hours=hours)
            if tuple(result) != (d.month, d.day, d.hour + 1):
                log["bad"].append({"mechanism": "hour-label-wrong", "message": f"hour {hours}: {tuple(result)} vs {(d.month, d.day, d.hour + 1)}"})
        return True

    def month_matches_closed_form(hours, result):
        log["hours_to_month"] += 1
        exp = months_oracle(float(hours))
        if abs(result - exp) > 1e-9 * max(1.0, abs(exp)):
            if len(log["bad"]) < 20:
                log["bad"].append({"mechanism": "fractional-month-wrong", "message": f"hours {hours}: {result} vs {exp}"})
        return True

    f1 = OutputManager.__dict__["ghe_time_convert"].__func__
    f2 = OutputManager.__dict__["hours_to_month"].__func__
    OutputManager.ghe_time_convert = staticmethod(icontract.ensure(label_matches_calendar, error=PostBroken)(f1))
    OutputManager.hours_to_month = staticmethod(icontract.ensure(month_matches_closed_form, error=PostBroken)(f2))
    return OutputManager


def run_shard(spec):
    if "cfgs" in spec:
        from vf.scenario import run_shard as rs

        return rs(spec)
    log = {"time_convert": 0, "hours_to_month": 0, "bad": []}
    OM = install(log)
    res = {"kind": "calendar", "viol": [], "points": 0}
    if spec["part"] == "labels":
        for h in range(8760):
            OM.ghe_time_convert(h)
        res["points"] = 8760
    else:
        lo, hi, step = spec["lo"], spec["hi"], spec["step"]
        n = int(round((hi - lo) / step))
        prev = None
        for i in range(n + 1):
            t = lo + i * step
            v = OM.hours_to_month(t)
            if prev is not None:
                dv = v - prev
                if not (dv > 0):
                    res["viol"].append({"mechanism": "fractional-month-not-increasing", "message": f"t={t}: {prev} -> {v}"})
                elif dv > step / 672.0 * (1 + 1e-9) + 1e-12:
                    res["viol"].append({"mechanism": "fractional-month-jumps", "message": f"t={t}: step {dv} > {step}/672"})
            prev = v
            res["points"] += 1
        # month ends are exact integers
        y0 = int(lo // 8760)
        y1 = int(hi // 8760)
        for y in range(y0, y1 + 1):
            for m in range(1, 13):
                t = y * 8760 + CUM[m]
                if lo <= t <= hi:
                    v = OM.hours_to_month(t)
                    if v != 12 * y + m:
                        res["viol"].append({"mechanism": "month-end-not-integer", "message": f"t={t}: {v} vs {12 * y + m}"})
    res["viol"] = res["viol"][:10] + log["bad"][:10]
    res["hits"] = {"time_convert": log["time_convert"], "hours_to_month": log["hours_to_month"]}
    return res


def check(tier, seed):
    years = 30
    step = 0.25
    nsh = 15
    span = years * 8760 / nsh
    specs = [{"part": "labels"}] + [{"part": "months", "lo": i * span, "hi": (i + 1) * span, "step": step} for i in range(nsh)]
    cal = run_pool("vf.props.C19", specs, timeout=3600)
    recs, problems = PC.records(tier, seed)
    rep = Report(PROP)
    rep.exhaustive = True
    rep.rule = (
        "calendar scopes (exhaustive): ghe_time_convert for all 8760 hours vs datetime; hours_to_month over 30 years at 0.25 h (1.05 M points): "
        "equal to the closed form, strictly increasing, steps <= dt/672, integers at every month end. Tables: every design run of the scenario "
        "pool: Loadings rows = the 8760 inputs in order with calendar labels, BoreFieldData rows = selected coordinates in order, Gfunction rows "
        "strictly increasing and equal to grab_g_function(B/H) of the returned object. non-trivial = design run whose tables were checked (each "
        "distinct scenario) plus the two calendar scopes."
    )
    for p in problems:
        rep.inconclusive.append("scenario failed in the harness: " + p)
    hits = {"time_convert": 0, "hours_to_month": 0}
    for r in cal:
        if "_harness_error" in r:
            rep.inconclusive.append("calendar shard failed: " + r["_harness_error"][:300])
            continue
        rep.evaluations += r["points"]
        rep.count("calendar_points", r["points"])
        for k, v in r["hits"].items():
            hits[k] += v
        for v in r["viol"]:
            rep.violate(v["mechanism"], v["message"], {"scope": "calendar"})
    rep.extra["contract_hits"] = hits
    if hits["time_convert"] < 8760 or hits["hours_to_month"] < 1_000_000:
        rep.inconclusive.append(f"calendar contracts not fully exercised: {hits}")
    rep.nontrivial(["calendar-labels"])
    rep.nontrivial(["calendar-months"])
    n_tables = 0
    for rec in recs:
        if rec["outcome"] != "design":
            continue
        rep.evaluations += 1
        if "tables" not in rec:
            rep.count("design_runs_without_tables_because_prepare_results_raised")
            continue
        n_tables += 1
        rep.nontrivial([rec["key"]])
        for k, msg in rec["tables"].items():
            rep.violate("table:" + k, f"{PC.method_of(rec)}: {msg}", {"scenario": rec["cfg"]})
        rep.sample(PC.brief(rec), cap=3)
    rep.extra["design_runs_with_tables_checked"] = n_tables
    if n_tables == 0:
        rep.inconclusive.append("no design run produced tables")
    rep.assumptions = ["non-leap calendar (2019) as the tool documents"]
    return rep


def replay(w):
    rep = Report(PROP)
    rep.rule = "replay: rerun the check (calendar scopes are exhaustive; scenarios are cached by inputs)"
    rep.evaluations = 1
    rep.nontrivial_count = 2
    rep.sample(w.get("witness", {}))
    return rep
