"""C19 - output tables label time correctly and echo inputs, selected field and the simulated curve.

Monitors: recording icontract post-conditions on OutputManager.ghe_time_convert / hours_to_month (exhaustive calendar scopes), and table
          checks on the OutputManager of every design run of the scenario pool (Loadings, BoreFieldData, Gfunction rows).
Oracle  : datetime arithmetic of the non-leap year 2019; closed-form piecewise-linear month function; the inputs themselves.
"""
from __future__ import annotations

import datetime as dt
import math

from vf.common import Report
from vf.pool import run_pool
from vf.props import pool_common as PC

PROP = "C19"
MONTH_H = [24 * d for d in [31, 28, 31, 30, 31, 30, 31, 31, 30, 31, 30, 31]]
CUM = [0]
for _h in MONTH_H:
    CUM.append(CUM[-1] + _h)


class PostBroken(Exception):
    pass


def months_oracle(t):
    y = math.floor(t / 8760.0)
    rem = t - 8760.0 * y
    if rem == 0:
        return 12.0 * y
    m = 0
    while CUM[m + 1] < rem:
        m += 1
    return 12.0 * y + m + (rem - CUM[m]) / MONTH_H[m]


def install(log):
    import icontract

    from ghedesigner.output import OutputManager

    t0 = dt.datetime(2019, 1, 1)

    def label_matches_calendar(hours, result):
        log["time_convert"] += 1
        if isinstance(hours, int) and 0 <= hours < 8760:
            d = t0 + dt.timedelta(hours=hours)
            if tuple(result) != (d.month, d.day, d.hour + 1):
                log["bad"].append({"mechanism": "hour-label-wrong", "message": f"hour {hours}: {tuple(result)} vs {(d.month, d.day, d.hour + 1)}"})
        return True

    def month_matches_closed_form(hours, result):
        log["hours_to_month"] += 1
        exp = months_oracle(float(hours))
        if abs(result - exp) > 1e-9 * max(1.0, abs(exp)):
            if len(log["bad"]) < 20:
                log["bad"].append({"mechanism": "fractional-month-wrong", "message": f"hours {hours}: {result} vs {exp}"})
        return True

    f1 = OutputManager.__dict__["ghe_time_convert"].__func__
    f2 = OutputManager.__dict__["hours_to_month"].__func__
    OutputManager.ghe_time_convert = staticmethod(icontract.ensure(label_matches_calendar, error=PostBroken)(f1))
    OutputManager.hours_to_month = staticmethod(icontract.ensure(month_matches_closed_form, error=PostBroken)(f2))
    return OutputManager


def object_tables_case(g, idx):
    """Tables built from a real search object (search switched off) after simulate()/size() with either time-step method and a
    horizon of one to three years: the loads table must still be the 8760 inputs, and the caller's list must be left alone."""
    import warnings

    from ghedesigner.enums import FlowConfigType, TimestepType
    from ghedesigner.output import OutputManager
    from ghedesigner.search_routines import Bisection1D
    from ghedesigner.simulation import SimulationParameters

    from vf.gen import ghe as GG
    from vf.gen import loads as GL
    from vf.gen import phys as GP

    pipe_kind = ["SINGLEUTUBE", "DOUBLEUTUBEPARALLEL", "COAXIAL", "DOUBLEUTUBESERIES"][idx % 4]
    ph = GP.draw_phys(g, pipe_kind)
    nx, ny = [(1, 1), (1, 2), (2, 2), (1, 3), (2, 3)][int(g.integers(0, 5))]
    b = float(round(g.uniform(4.5, 8.0), 1))
    coords = GG.grid(nx, ny, b)
    desc = GL.draw_desc(g)
    desc["scale"] = 0.02 * nx * ny
    reference = tuple(GL.make_loads(desc))
    handed = list(reference)
    hourly = idx % 2 == 1
    method = TimestepType.HOURLY if hourly else TimestepType.HYBRID
    # the hourly method only runs for whole-year horizons (a 13-month hourly simulate() raises IndexError in _simulate_detailed: logged in
    # notes/findings_log.md as an out-of-scope observation - a crash, not a wrong table)
    n_months = int(g.choice([12, 24, 24] if hourly else [12, 13, 24, 30, 36, 60]))
    hmax = float(round(g.uniform(90, 150), 1))
    pt, fluid, bh, pipe, grout, soil = GP.bhe_objects(ph, hmax)
    sp = SimulationParameters(1, n_months, 35.0, 5.0, hmax, 40.0)
    ops = ["simulate"] + (["size"] if g.random() < 0.3 and not hourly else []) + (["simulate"] if g.random() < 0.4 else [])
    case = {"pipe": pipe_kind, "field": f"{nx}x{ny}", "b": b, "method": method.name, "n_months": n_months, "ops": ops, "loads": desc}
    out = {}
    with warnings.catch_warnings():
        warnings.simplefilter("ignore")
        # the calendar year attached to the loads is a label of the user's; the tables use the non-leap calendar whatever it is
        load_years = [int(g.choice([2019, 2020, 2024, 2023]))] if g.random() < 0.4 else None
        case["load_years"] = load_years
        search = Bisection1D([coords], [f"{nx}X{ny}"], float(round(g.uniform(0.2, 0.5), 2)), bh, pt, fluid, pipe, grout, soil, sp, handed,
                             method=method, flow_type=FlowConfigType.BOREHOLE, search=False, field_type="rectangle", load_years=load_years)
        for op in ops:
            try:
                if op == "simulate":
                    search.ghe.simulate(method=method)
                else:
                    search.ghe.size(method=method)
            except ValueError:
                pass
        om = OutputManager(search, 0.0, "p", "n", "a", "m", load_method=method)
    rows = om.hourly_loading_data_rows
    t0 = dt.datetime(2019, 1, 1)
    if rows[0] != ["Month", "Day", "Hour", "Time (Hours)", "Loading (W) (Extraction)"]:
        out["loadings_header"] = str(rows[0])
    if len(rows) - 1 != 8760:
        out["loadings_row_count"] = f"{len(rows) - 1} rows for 8760 input loads after {ops} with {method.name} over {n_months} months; first surplus row {rows[8761] if len(rows) > 8761 else None}"
    for h, r in enumerate(rows[1:8761]):
        d = t0 + dt.timedelta(hours=h)
        if list(r) != [d.month, d.day, d.hour + 1, h, reference[h]]:
            out["loadings_row"] = f"row {h}: {r} vs {[d.month, d.day, d.hour + 1, h, reference[h]]}"
            break
    # (the reference is an immutable copy: a tool that edits the list it was handed cannot move the expectation; whether it does so
    # is recorded but not judged - the property speaks about the table)
    case["handed_list_modified"] = tuple(handed) != reference
    if [list(map(float, r)) for r in om.borehole_location_data_rows[1:]] != [list(map(float, c)) for c in coords]:
        out["borefield"] = "bore-field table differs from the simulated field"
    gt_rows = om.g_function_data_rows
    xs = [r[0] for r in gt_rows[1:]]
    if any(b2 <= a2 for a2, b2 in zip(xs, xs[1:])):
        out["gfunction_time_not_increasing"] = "ln(t/ts) column not strictly increasing"
    with warnings.catch_warnings():
        warnings.simplefilter("ignore")
        gf, gb = search.ghe.grab_g_function(search.ghe.B_spacing / float(search.ghe.bhe.b.H))
    if len(xs) != len(gf.x) or max(abs(a2 - b2) for a2, b2 in zip(xs, gf.x)) > 0 or max(abs(r[1] - y) for r, y in zip(gt_rows[1:], gf.y)) > 1e-12 \
            or max(abs(r[2] - y) for r, y in zip(gt_rows[1:], gb.y)) > 1e-12:
        out["gfunction_rows"] = "table rows differ from the curve of the returned object"
    return out, case


def run_shard(spec):
    if "cfgs" in spec:
        from vf.scenario import run_shard as rs

        return rs(spec)
    if spec.get("part") == "objects":
        from vf.common import rng

        g = rng(spec["seed"], PROP, spec["shard"])
        res = {"kind": "objects", "viol": [], "cases": [], "points": 0, "hits": {}}
        for i in range(spec["n"]):
            idx = spec["shard"] * spec["n"] + i
            out, case = object_tables_case(g, idx)
            res["points"] += 1
            res["cases"].append([case["pipe"], case["field"], case["method"], case["n_months"], "+".join(case["ops"]), case["loads"]["seed"]])
            for k, msg in out.items():
                res["viol"].append({"mechanism": "object-table:" + k, "message": f"{case['field']} {case['pipe']}: {msg}", "case": case})
        return res
    log = {"time_convert": 0, "hours_to_month": 0, "bad": []}
    OM = install(log)
    res = {"kind": "calendar", "viol": [], "points": 0}
    if spec["part"] == "labels":
        for h in range(8760):
            OM.ghe_time_convert(h)
        res["points"] = 8760
    else:
        lo, hi, step = spec["lo"], spec["hi"], spec["step"]
        n = int(round((hi - lo) / step))
        prev = None
        for i in range(n + 1):
            t = lo + i * step
            v = OM.hours_to_month(t)
            if prev is not None:
                dv = v - prev
                if not (dv > 0):
                    res["viol"].append({"mechanism": "fractional-month-not-increasing", "message": f"t={t}: {prev} -> {v}"})
                elif dv > step / 672.0 * (1 + 1e-9) + 1e-12:
                    res["viol"].append({"mechanism": "fractional-month-jumps", "message": f"t={t}: step {dv} > {step}/672"})
            prev = v
            res["points"] += 1
        # month ends are exact integers
        y0 = int(lo // 8760)
        y1 = int(hi // 8760)
        for y in range(y0, y1 + 1):
            for m in range(1, 13):
                t = y * 8760 + CUM[m]
                if lo <= t <= hi:
                    v = OM.hours_to_month(t)
                    if v != 12 * y + m:
                        res["viol"].append({"mechanism": "month-end-not-integer", "message": f"t={t}: {v} vs {12 * y + m}"})
    res["viol"] = res["viol"][:10] + log["bad"][:10]
    res["hits"] = {"time_convert": log["time_convert"], "hours_to_month": log["hours_to_month"]}
    return res


def check(tier, seed):
    years = 30
    step = 0.25
    nsh = 15
    span = years * 8760 / nsh
    specs = [{"part": "labels"}] + [{"part": "months", "lo": i * span, "hi": (i + 1) * span, "step": step} for i in range(nsh)]
    n_obj = {"quick": 2, "thorough": 12}[tier]
    specs += [{"part": "objects", "seed": seed, "shard": s_, "n": n_obj} for s_ in range(16)]
    cal = run_pool("vf.props.C19", specs, timeout=3600)
    recs, problems = PC.records(tier, seed)
    rep = Report(PROP)
    rep.exhaustive = True
    rep.rule = (
        "calendar scopes (exhaustive): ghe_time_convert for all 8760 hours vs datetime; hours_to_month over 30 years at 0.25 h (1.05 M points): "
        "equal to the closed form, strictly increasing, steps <= dt/672, integers at every month end. Tables: every design run of the scenario "
        "pool: Loadings rows = the 8760 inputs in order with calendar labels, BoreFieldData rows = selected coordinates in order, Gfunction rows "
        "strictly increasing and equal to grab_g_function(B/H) of the returned object. Object level: real search objects (search off) on 1-6 borehole fields, "
        "simulate()/size() with the HYBRID or HOURLY method over 12-60 months, then OutputManager: all 8760 Loadings rows exactly, the list handed "
        "to the tool compared through an immutable copy, bore-field and g-function tables. non-trivial = design run whose tables were checked (each "
        "distinct scenario) plus the two calendar scopes."
    )
    for p in problems:
        rep.inconclusive.append("scenario failed in the harness: " + p)
    hits = {"time_convert": 0, "hours_to_month": 0}
    for r in cal:
        if "_harness_error" in r:
            rep.inconclusive.append("calendar shard failed: " + r["_harness_error"][:300])
            continue
        rep.evaluations += r["points"]
        if r.get("kind") == "objects":
            rep.count("object_level_table_cases", r["points"])
            for c in r["cases"]:
                rep.nontrivial(["object"] + c)
                if c[2] == "HOURLY" and c[3] > 12:
                    rep.count("object_level_hourly_multi_year_cases")
            for v in r["viol"]:
                rep.violate(v["mechanism"], v["message"], {"case": v["case"]})
            continue
        rep.count("calendar_points", r["points"])
        for k, v in r["hits"].items():
            hits[k] += v
        for v in r["viol"]:
            rep.violate(v["mechanism"], v["message"], {"scope": "calendar"})
    rep.extra["contract_hits"] = hits
    if hits["time_convert"] < 8760 or hits["hours_to_month"] < 1_000_000:
        rep.inconclusive.append(f"calendar contracts not fully exercised: {hits}")
    rep.nontrivial(["calendar-labels"])
    rep.nontrivial(["calendar-months"])
    n_tables = 0
    for rec in recs:
        if rec["outcome"] != "design":
            continue
        rep.evaluations += 1
        if "tables" not in rec:
            rep.count("design_runs_without_tables_because_prepare_results_raised")
            continue
        n_tables += 1
        rep.nontrivial([rec["key"]])
        for k, msg in rec["tables"].items():
            rep.violate("table:" + k, f"{PC.method_of(rec)}: {msg}", {"scenario": rec["cfg"]})
        rep.sample(PC.brief(rec), cap=3)
    rep.extra["design_runs_with_tables_checked"] = n_tables
    if rep.extra.get("object_level_hourly_multi_year_cases", 0) == 0:
        rep.inconclusive.append("no object-level hourly multi-year table case was run")
    if n_tables == 0:
        rep.inconclusive.append("no design run produced tables")
    rep.assumptions = ["non-leap calendar (2019) as the tool documents"]
    return rep


def replay(w):
    rep = Report(PROP)
    rep.rule = "replay: rerun the check (calendar scopes are exhaustive; scenarios are cached by inputs)"
    rep.evaluations = 1
    rep.nontrivial_count = 2
    rep.sample(w.get("witness", {}))
    return rep
