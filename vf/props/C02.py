"""C02 - height bounds, borehole cap, unmet-design policy, exception types.

Events : scenario records (vf.scenario): outcome / exception type and origin, every search() call with its evaluations (the first three are
         smallest@min, smallest@max, largest-allowed@max), escape messages, returned field and height, cap and continue flag.
Oracle : (a) min_height <= H <= max_height; (b) count <= max_boreholes for the near-square and rectangular-family searches; (c) policy table
         evaluated from the observed excesses (and re-evaluated by the harness's own simulation for the error/escape runs of the 1-D
         searches); (d) nothing but ValueError escapes.
"""
from __future__ import annotations

import warnings

import numpy as np

from vf.common import Report
from vf.gen import config as GC
from vf.gen import ghe as GG
from vf.gen import loads as GL
from vf.gen import phys as GP
from vf.pool import run_pool
from vf.props import pool_common as PC

PROP = "C02"
ONE_D = ("NEARSQUARE", "RECTANGLE")
CAPPED = ("NEARSQUARE", "RECTANGLE", "BIRECTANGLE", "BIZONEDRECTANGLE", "BIRECTANGLECONSTRAINED")
NESTED = ("BIZONEDRECTANGLE", "BIRECTANGLECONSTRAINED")


def allowed_last(counts, cap):
    """Indices the tool may regard as 'largest allowed' (count < cap as coded, or <= cap)."""
    if cap is None:
        return {len(counts) - 1}
    a = [i for i, c in enumerate(counts) if c < cap]
    b = [i for i, c in enumerate(counts) if c <= cap]
    out = set()
    if a:
        out.add(a[-1])
    if b:
        out.add(b[-1])
    return out


def policy_expectation(search):
    """From the first three evaluations of a search() call: which branch must be taken."""
    ev = search["evals"]
    if len(ev) < 3:
        return None
    e_small_min, e_small_max, e_large = ev[0][2], ev[1][2], ev[2][2]
    if (e_small_min < 0) != (e_small_max < 0):
        return "size-smallest"
    if (e_small_max < 0) != (e_large < 0):
        return "bisect"
    if e_small_min < 0:
        return "too-small"
    if e_large > 0:
        return "too-large"
    return None


def run_shard(spec):
    if "cfgs" in spec:
        from vf.scenario import run_shard as rs

        return rs(spec)
    if spec.get("part") == "scripted-physics":
        from vf.props import scripted as SC

        return SC.run_batch(spec)
    if spec.get("part") == "entry-points":
        return entry_points(spec)
    return verify_policy(spec)


def entry_points(spec):
    """The other ways into a design run: the command-line worker on a written input file, and find_design(throw=False) followed by
    prepare_results().  Same clause: a design, or a ValueError - nothing else."""
    import contextlib
    import io
    import json
    import shutil
    import tempfile
    import traceback
    from pathlib import Path

    import ghedesigner.manager as M

    from vf.common import TMP, rng

    g = rng(spec["seed"], PROP + "-entry", spec["shard"])
    res = {"kind": "entry-points", "runs": 0, "viol": [], "outcomes": {}, "cases": []}
    work = Path(tempfile.mkdtemp(prefix="c02_", dir=str(TMP)))
    try:
        for i in range(spec["n"]):
            k = spec["shard"] * spec["n"] + i
            method = ["NEARSQUARE", "RECTANGLE", "BIRECTANGLE", "BIZONEDRECTANGLE", "BIRECTANGLECONSTRAINED"][k % 5]
            klass = ["huge", "tiny", "interior", "huge"][k % 4]
            flag = bool((k // 4) % 2)
            cfg = PC.make_cfg(g, method, GP.PIPES[k % 4], ["BOREHOLE", "SYSTEM"][k % 2], klass, flag, 36)
            cfg["simulation"]["num_months"] = 12
            cfg["loads_desc"]["scale"] = PC.scale_loads_for(cfg, klass, g)
            loads = GL.make_loads(cfg["loads_desc"])
            case = {"scenario": cfg, "class": klass, "flag": flag}
            sink = io.StringIO()
            for entry in ("cli-worker", "api-throw-false"):
                outcome = None
                try:
                    with warnings.catch_warnings():
                        warnings.simplefilter("ignore")
                        with contextlib.redirect_stdout(sink), contextlib.redirect_stderr(sink):
                            if entry == "cli-worker":
                                f = work / f"in_{k}.json"
                                f.write_text(json.dumps(GC.to_input_dict(cfg, loads)))
                                rc = M._run_manager_from_cli_worker(f, work / f"out_{k}")
                                outcome = f"returned-{rc}"
                            else:
                                m = GC.build_manager(cfg, loads=loads)
                                rc = m.find_design(throw=False)
                                if rc in (0, None):
                                    m.prepare_results("verif", "n", "a", "i")
                                outcome = f"returned-{rc}"
                except ValueError:
                    outcome = "ValueError"
                except Exception as e:  # noqa: BLE001
                    tb = traceback.extract_tb(e.__traceback__)
                    where = [f"{fr.name}:{fr.lineno}" for fr in tb if "ghedesigner" in fr.filename][-3:]
                    outcome = "exception:" + type(e).__name__
                    res["viol"].append({"mechanism": f"non-ValueError-escapes:{type(e).__name__}:{entry}", "message": f"{method} ({klass} loads, continue flag {flag}) through {entry}: {type(e).__name__}: {str(e)[:120]} at {where}", "case": {**case, "entry": entry}})
                res["runs"] += 1
                res["outcomes"][entry + ":" + outcome] = res["outcomes"].get(entry + ":" + outcome, 0) + 1
            res["cases"].append([method, klass, flag, cfg["loads_desc"]["seed"]])
            shutil.rmtree(work / f"out_{k}", ignore_errors=True)
    finally:
        shutil.rmtree(work, ignore_errors=True)
    return res


def verify_policy(spec):
    """Independent re-evaluation of the policy antecedent for one 1-D scenario: own GHE (pygfunction MIFT), own simulation, own excess."""
    from ghedesigner.enums import TimestepType

    cfg = spec["cfg"]
    loads = GL.make_loads(cfg["loads_desc"])
    with warnings.catch_warnings():
        warnings.simplefilter("ignore")
        m = GC.build_manager(cfg, loads=loads)
        dom = m._design.coordinates_domain
        counts = [len(c) for c in dom]
        geo, des = cfg["geometric_constraints"], cfg["design"]
        out = {}
        for name, idx, H in spec["evals"]:
            coords = [tuple(map(float, c)) for c in dom[idx]]
            n = len(coords)
            v = des["flow_rate"] if des["flow_type"].upper() == "BOREHOLE" else des["flow_rate"] / n
            ghe = GG.make_ghe(GC.phys_of(cfg), coords, H, v, loads, cfg["simulation"]["num_months"], max_eft=des["max_eft"], min_eft=des["min_eft"],
                              hmax=geo["max_height"], hmin=geo["min_height"], real_g=True)
            mx, mn = ghe.simulate(method=TimestepType.HYBRID)
            out[name] = float(max(mx - des["max_eft"], des["min_eft"] - mn))
    return {"excess": out, "counts": counts}


def scripted_part(rep, tier, seed):
    """The real search classes on scripted physics (vf/props/scripted.py): this property's clauses with the full table known."""
    from vf.pool import run_pool as _rp

    specs = [{"part": "scripted-physics", "seed": seed, "shard": s, "nshards": 16, "n1d": {"quick": 24, "thorough": 48}[tier],
              "nnested": {"quick": 150, "thorough": 1500}[tier]} for s in range(16)]
    runs = 0
    stats = {}
    for r in _rp("vf.props.%s" % PROP, specs, timeout=3600):
        if "_harness_error" in r:
            rep.inconclusive.append("scripted shard failed: " + r["_harness_error"][:300])
            continue
        runs += r["runs"]
        for k, v in r["stats"].items():
            stats[k] = stats.get(k, 0) + v
        for v in r["viol"][PROP]:
            rep.violate(v["mechanism"], v["message"], {"case": v["case"]})
    rep.evaluations += runs
    rep.extra["scripted_physics_runs"] = runs
    rep.extra["scripted_physics_stats"] = stats
    if runs == 0:
        rep.inconclusive.append("scripted-physics runs did not execute")
    return stats


def check(tier, seed):
    recs, problems = PC.records(tier, seed)
    rep = Report(PROP)
    _sstats = scripted_part(rep, tier, seed)
    rep.rule = (
        "scenario pool as C01 with load magnitudes from far below to far beyond the land's capacity, caps from a few boreholes to beyond the "
        "largest field, continue flag both ways, height windows 1..300 m wide; non-degenerate inputs by construction (spacing windows hold an "
        "integer count, >= 3 rows at max spacing, ground temperature >= 5 K inside the limits, RowWise lots wider than 1.3 x the largest spacing). "
        "Entry points: the same clause through the command-line worker on a written input file and through find_design(throw=False) + prepare_results() "
        "(small 12-month scenarios, loads tiny / interior / huge, flag both ways). non-trivial = distinct (outcome class, method) pair; outcome classes: bracketed, clamped-min, clamped-max, unmet-small, unmet-large, ValueError."
    )
    for p in problems:
        rep.inconclusive.append("scenario failed in the harness: " + p)
    classes = {}
    to_verify = []
    for rec in recs:
        rep.evaluations += 1
        meth = PC.method_of(rec)
        oc = PC.outcome_class(rec)
        classes[oc] = classes.get(oc, 0) + 1
        rep.nontrivial([oc, meth])
        cfg = rec["cfg"]
        flag = bool(cfg["design"].get("continue_if_design_unmet", False))
        cap = cfg["design"].get("max_boreholes")
        wit = {"scenario": cfg, "outcome": oc, "exc": rec.get("exc_msg"), "where": rec.get("exc_where")}
        # ---- (d) exception types
        if rec["outcome"] == "exception":
            rep.violate(f"non-ValueError-escapes:{rec.get('exc_type')}:{meth}", f"{meth}: {rec.get('exc_type')}: {rec.get('exc_msg')} at {rec.get('exc_where')}", wit)
            continue
        searches = rec.get("searches", [])
        # ---- (c) policy of the 1-D family and bi-rectangle, judged on the search() call that decided the outcome (the last one)
        if meth in ONE_D + ("BIRECTANGLE",) and searches:
            if rec["outcome"] == "ValueError":
                msg = rec.get("exc_msg") or ""
                if msg != "Search failed.":
                    # the type is ValueError, which is all the statement asks for; counted so that the evidence shows it
                    rep.count("accidental_ValueError_not_from_the_search_policy")
                    rep.extra.setdefault("accidental_ValueError_examples", [])
                    if len(rep.extra["accidental_ValueError_examples"]) < 3:
                        rep.extra["accidental_ValueError_examples"].append({"method": meth, "msg": msg, "where": rec.get("exc_where")})
                elif flag:
                    rep.violate(f"error-raised-although-asked-to-continue:{meth}", f"{meth}: Search failed. with continue_if_design_unmet=True", wit)
                else:
                    last = next((s for s in searches if isinstance(s["result"], str)), searches[-1])
                    e2 = policy_expectation(last)
                    if e2 not in ("too-small", "too-large"):
                        rep.violate(f"error-raised-although-a-candidate-brackets:{meth}", f"{meth}: evaluations {last['evals'][:3]} bracket the limits but the run failed", wit)
                    else:
                        rep.count("ValueError_" + e2)
                        if meth in ONE_D and len(to_verify) < 8:
                            al = sorted(allowed_last(last["counts"], last["cap"]))
                            to_verify.append((rec, e2, al))
            else:
                f = rec["final"]
                last_s = searches[-1]
                exp = policy_expectation(last_s)
                took_large = last_s.get("escape_large", 0) > 0
                took_small = last_s.get("escape_small", 0) > 0
                if (took_large or took_small) and not flag:
                    rep.violate(f"escape-taken-although-flag-off:{meth}", f"{meth}: an unmet design was returned with continue_if_design_unmet=False", wit)
                # a run whose returned design meets the limits after the closing sizing is not an "unmet" outcome, whatever the search
                # printed on the way (a shared system flow of a few mL/s per borehole makes the excess non-monotone in the height: the
                # search sees an excess at maximum height, the sizing finds a height that meets the limits) - thorough tier, seed 1
                feasible_after_sizing = (rec.get("resim") or {}).get("excess", 1.0) <= 1e-3 and f["hmin"] + 1e-9 < f["H"] < f["hmax"] - 1e-9
                if feasible_after_sizing and (took_large or exp == "too-large"):
                    rep.count("escape_message_but_feasible_design_after_sizing")
                elif exp == "too-large" or took_large:
                    ok_counts = {last_s["counts"][i] for i in allowed_last(last_s["counts"], last_s["cap"])}
                    if not took_large or f["nbh"] not in ok_counts or abs(f["H"] - f["hmax"]) > 1e-9:
                        rep.violate(f"unmet-large-not-largest-at-max-height:{meth}", f"{meth}: evaluations {last_s['evals'][:3]}; returned {f['nbh']} bh at {f['H']} m; largest allowed {sorted(ok_counts)} at {f['hmax']} m", wit)
                    rep.count("unmet_large_checked")
                elif exp == "too-small" or took_small:
                    smallest = last_s["counts"][0]
                    if not took_small or f["nbh"] != smallest or abs(f["H"] - f["hmin"]) > 1e-9:
                        rep.violate(f"unmet-small-not-smallest-at-min-height:{meth}", f"{meth}: evaluations {last_s['evals'][:3]}; returned {f['nbh']} bh at {f['H']} m; smallest {smallest} at {f['hmin']} m", wit)
                    rep.count("unmet_small_checked")
        elif rec["outcome"] == "ValueError":
            origin = rec.get("exc_origin")
            msg = rec.get("exc_msg") or ""
            if meth in NESTED:
                if msg == "Search failed." and not flag:
                    rep.count("ValueError_nested_flag_off")
                elif flag and ("empty" in msg) and any("search_successive" in w for w in rec.get("exc_where", [])):
                    ev_all = [e[2] for s in searches for e in s["evals"]]
                    mech = "nested-search-escape-large-ends-in-max-of-empty" if ev_all and min(ev_all) > 0 else "nested-search-tail-ValueError"
                    rep.violate(f"{mech}", f"{meth}: flag on, every evaluated excess > 0, ValueError('{msg}') from search_successive instead of the largest candidate at max height", wit)
                elif msg == "Search failed." and flag:
                    rep.violate(f"error-raised-although-asked-to-continue:{meth}", f"{meth}: Search failed. with continue flag on", wit)
                else:
                    rep.count("accidental_ValueError_not_from_the_search_policy")
            elif meth == "ROWWISE":
                if msg == "Search failed." and not flag:
                    rep.count("ValueError_rowwise_flag_off")
                elif "truth value of an array" in msg:
                    rep.count("accidental_ValueError_rowwise_equidistant_boreholes")
                else:
                    rep.count("accidental_ValueError_not_from_the_search_policy")
        # ---- (a) (b) on every returned design
        if rec["outcome"] == "design":
            f = rec["final"]
            if not (f["hmin"] <= f["H"] <= f["hmax"]):
                rep.violate(f"height-outside-window:{meth}", f"{meth}: H={f['H']} outside [{f['hmin']},{f['hmax']}]", wit)
            if cap is not None and meth in CAPPED and f["nbh"] > cap:
                rep.violate(f"borehole-cap-exceeded:{meth}", f"{meth}: {f['nbh']} boreholes with max_boreholes={cap}", wit)
            if cap is not None and meth in CAPPED:
                rep.count("cap_checked")
                if any(c[0] >= cap - 1 for s in searches for c in s["evals"]):
                    rep.count("cap_binding_in_search")
            if meth in NESTED and flag and PC.escaped(rec):
                ev_all = [e[2] for s in searches for e in s["evals"]]
                first_counts = searches[1]["counts"] if len(searches) > 1 else searches[0]["counts"]
                # the smallest field of any one candidate list (polygon-constrained lists do not all start with one borehole)
                smallest_ok = {min(s_["counts"]) for s_ in searches if s_["counts"]} | {min(first_counts)}
                if ev_all and max(ev_all) < 0:
                    rep.count("nested_unmet_small_checked")
                    if f["nbh"] not in smallest_ok or abs(f["H"] - f["hmin"]) > 1e-9:
                        rep.violate("nested-search-escape-small-returns-non-smallest", f"{meth}: flag on, every evaluated excess < 0, returned {f['nbh']} bh at {f['H']} m instead of the smallest candidate ({min(first_counts)}) at {f['hmin']} m", wit)
                feasible_after_sizing_n = (rec.get("resim") or {}).get("excess", 1.0) <= 1e-3 and f["hmin"] + 1e-9 < f["H"] < f["hmax"] - 1e-9
                if ev_all and min(ev_all) > 0 and feasible_after_sizing_n:
                    rep.count("escape_message_but_feasible_design_after_sizing")
                elif ev_all and min(ev_all) > 0:
                    rep.count("nested_unmet_large_checked")
                    biggest = set()
                    for s_ in searches:
                        biggest |= {s_["counts"][i] for i in allowed_last(s_["counts"], s_["cap"])}
                    if f["nbh"] != max(biggest) and f["nbh"] not in {s_["counts"][i] for s_ in searches[-2:] for i in allowed_last(s_["counts"], s_["cap"])} or abs(f["H"] - f["hmax"]) > 1e-9:
                        rep.violate("nested-search-escape-large-not-largest-at-max-height", f"{meth}: flag on, every evaluated excess > 0, returned {f['nbh']} bh at {f['H']} m; largest allowed candidates {sorted(biggest)[-3:]} at {f['hmax']} m", wit)
        rep.sample(PC.brief(rec), cap=5)
    # ---- independent re-evaluation of the policy antecedent for error runs of the 1-D searches
    if to_verify:
        specs = []
        for rec, e2, al in to_verify:
            geo = rec["cfg"]["geometric_constraints"]
            evals = [["small_min", 0, geo["min_height"]], ["small_max", 0, geo["max_height"]], ["large_max", al[0], geo["max_height"]]]
            specs.append({"cfg": rec["cfg"], "evals": evals})
        res = run_pool("vf.props.C02", specs, timeout=1800)
        for (rec, e2, al), r in zip(to_verify, res):
            if "_harness_error" in r:
                rep.inconclusive.append("policy re-evaluation failed: " + r["_harness_error"][:200])
                continue
            ex = r["excess"]
            rep.count("policy_antecedent_reevaluated")
            ok = (ex["small_min"] < 0 and ex["small_max"] < 0) if e2 == "too-small" else (ex["large_max"] > 0 and ex["small_max"] > 0)
            if not ok:
                rep.violate(f"error-not-justified-by-independent-evaluation:{PC.method_of(rec)}",
                            f"run failed as {e2} but the harness's own evaluation gives {ex}", {"scenario": rec["cfg"], "own": ex})
    rep.extra["outcome_classes"] = classes
    # other entry points: command-line worker and find_design(throw=False) + prepare_results()
    n_ep = {"quick": 1, "thorough": 6}[tier]
    ep_out = {}
    for r in run_pool("vf.props.C02", [{"part": "entry-points", "seed": seed, "shard": s_, "n": n_ep} for s_ in range(16)], timeout=5400):
        if "_harness_error" in r:
            rep.inconclusive.append("entry-point shard failed: " + r["_harness_error"][:300])
            continue
        rep.evaluations += r["runs"]
        for k_, v_ in r["outcomes"].items():
            ep_out[k_] = ep_out.get(k_, 0) + v_
        for c in r["cases"]:
            rep.nontrivial(["entry-points"] + c)
        for v in r["viol"]:
            rep.violate(v["mechanism"], v["message"], {"case": v["case"]})
    rep.extra["entry_point_outcomes"] = ep_out
    if not any(k_.endswith("ValueError") for k_ in ep_out) or not any("returned-0" in k_ for k_ in ep_out):
        rep.inconclusive.append(f"entry-point lane did not see both a design and a ValueError: {ep_out}")
    if classes.get("ValueError", 0) == 0:
        rep.inconclusive.append("no ValueError outcome observed")
    if rep.extra.get("ValueError_too-small", 0) == 0 or rep.extra.get("ValueError_too-large", 0) == 0:
        rep.inconclusive.append("both error branches (loads too small / too large) were not observed")
    if rep.extra.get("unmet_small_checked", 0) == 0 or rep.extra.get("unmet_large_checked", 0) == 0:
        rep.inconclusive.append("both continue branches were not observed for the 1-D / bi-rectangle searches")
    rep.assumptions = [
        "'largest allowed' accepts count < cap (as coded) or <= cap",
        "ValueErrors that do not come from the search policy (numpy truth-value error in RowWise, NaN resistance at extreme flows) are counted, not judged: the statement only constrains the type",
        "degenerate inputs are not generated (see rule)",
    ]
    return rep


def replay(w):
    from vf.scenario import run_scenario

    rec = run_scenario(w["witness"]["scenario"])
    rep = Report(PROP)
    rep.evaluations = 1
    rep.nontrivial_count = 2
    rep.rule = "replay of one scenario (prints the outcome; compare with the witness)"
    rep.sample(PC.brief(rec))
    return rep
