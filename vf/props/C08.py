"""C08 - see vf/props/hybrid_common.py (shared workload and observation for the hybrid-load properties)."""
from vf.props import hybrid_common as H

PROP = "C08"


def run_shard(spec):
    return H.run_shard(spec)


def check(tier, seed):
    rep = H.run_check(PROP, tier, seed)
    rep.rule = RULE
    rep.assumptions = ASSUME
    return rep


def replay(w):
    return H.replay_case(PROP, w)


RULE = (
    "case as C06; hour[0]=hour[1]=0, every non-leap month end within the horizon is a breakpoint, the last breakpoint is the "
    "horizon end, monthly totals/peaks of month m+12 equal those of m, and hour[1:] strictly increases whenever the reported "
    "pulse windows (from reported days and durations) overlap neither each other nor the month boundaries. "
    "non-trivial = horizon >= 13 months or not a multiple of 12; distinct by (family, seed, horizon)."
)
ASSUME = ["non-leap calendar", "overlap precondition computed from the reported peak days/durations only"]
