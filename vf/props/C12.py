"""C12 - the reported results are self-consistent and describe the returned design.

Events : OutputManager.output_dict / text summary / CSV rows of every design run of the scenario pool, the search tracker.
Oracle : count = rows = selected coordinates; drilling = count x H; reported max/min EFT = in-place re-simulation of a deep copy at the
         reported height (1e-3 K); every tracker row satisfies excess = max(max-Tmax, Tmin-min).
"""
from __future__ import annotations

from vf.common import Report
from vf.props import pool_common as PC

PROP = "C12"


def run_shard(spec):
    from vf.scenario import run_shard as rs

    return rs(spec)


def judge_record(rec, rep):
    f = rec["final"]
    if "summary_error" in rec:
        se = rec["summary_error"]
        nm = rec["cfg"]["simulation"]["num_months"]
        mech = f"summary-construction-raised:{se['type']}"
        if se["type"] == "IndexError" and nm % 12 != 0 and nm > 12 and any("get_summary" in w for w in se["where"]):
            mech = "summary-crashes-when-horizon-is-not-a-multiple-of-12-months"
        rep.violate(mech, f"{PC.method_of(rec)} {nm} months: prepare_results raised {se['type']}: {se['msg']} at {se['where']}", {"scenario": rec["cfg"], "error": se})
        return PC.outcome_class(rec)
    s = rec["summary"]
    rs = rec["resim"]
    oc = PC.outcome_class(rec)
    wit = {"scenario": rec["cfg"], "final": {k: f[k] for k in ("nbh", "H", "hmin", "hmax", "tmax", "tmin")}, "summary": {k: s[k] for k in s if k != "search_log_rows"}, "resim": rs, "outcome": oc}
    if not (s["number_of_boreholes"] == s["borefield_rows"] == f["nbh"] == f["nbh_gfunction"]):
        rep.violate("borehole-count-inconsistent", f"summary {s['number_of_boreholes']}, BoreFieldData rows {s['borefield_rows']}, selected coordinates {f['nbh']}, g-function field {f['nbh_gfunction']}", wit)
    if s["active_borehole_length"] != f["H"]:
        rep.violate("reported-height-differs", f"summary {s['active_borehole_length']} vs object {f['H']}", wit)
    if abs(s["total_drilling"] - f["nbh"] * f["H"]) > 1e-9 * max(1.0, f["nbh"] * f["H"]):
        rep.violate("total-drilling-not-count-times-height", f"{s['total_drilling']} vs {f['nbh']} x {f['H']}", wit)
    dmax = abs(s["max_hp_eft"] - rs["max"])
    dmin = abs(s["min_hp_eft"] - rs["min"])
    rep.worst("worst_reported_vs_resimulated_K", max(dmax, dmin))
    if max(dmax, dmin) > 1e-3:
        mech = "reported-temperatures-not-those-of-reported-height"
        if oc in ("clamped-min", "unmet-small") or abs(f["H"] - f["hmin"]) < 1e-9:
            mech = "stale-temperatures-when-clamped-at-minimum-height"
        rep.violate(mech, f"{PC.method_of(rec)} {oc}: summary max/min {s['max_hp_eft']:.4f}/{s['min_hp_eft']:.4f} vs re-simulated at H={f['H']:.3f}: {rs['max']:.4f}/{rs['min']:.4f}", wit)
    # the text summary (what SimulationSummary.txt holds) must tell the same story, within its print precision
    tl = s.get("text_lines") or {}
    try:
        if tl.get("NBH:") is not None and int(float(tl["NBH:"])) != f["nbh"]:
            rep.violate("text-summary-borehole-count-differs", f"text NBH {tl['NBH:']} vs {f['nbh']}", wit)
        if tl.get("Max HP EFT, C:") is not None and abs(float(tl["Max HP EFT, C:"]) - rs["max"]) > 1.6e-3:
            rep.violate("text-summary-temperatures-differ", f"text max EFT {tl['Max HP EFT, C:']} vs re-simulated {rs['max']:.4f}", wit)
        if tl.get("Min HP EFT, C:") is not None and abs(float(tl["Min HP EFT, C:"]) - rs["min"]) > 1.6e-3:
            rep.violate("text-summary-temperatures-differ", f"text min EFT {tl['Min HP EFT, C:']} vs re-simulated {rs['min']:.4f}", wit)
        if tl.get("Total Drilling, m:") is not None and abs(float(tl["Total Drilling, m:"]) - f["nbh"] * f["H"]) > 0.51:
            rep.violate("text-summary-drilling-differs", f"text total drilling {tl['Total Drilling, m:']} vs {f['nbh'] * f['H']:.2f}", wit)
        rep.count("text_summaries_checked")
    except ValueError:
        rep.count("text_summary_lines_not_parsed")
    nrows = 0
    for r in s["search_log_rows"]:
        nrows += 1
        exp = max(r[2] - f["tmax"], f["tmin"] - r[3])
        if abs(r[1] - exp) > 1e-12 * max(1.0, abs(exp)):
            rep.violate("search-log-row-excess-wrong", f"row {r}: excess {r[1]} vs max(max-Tmax, Tmin-min) = {exp}", wit)
            break
    if s["search_log_rows"] != rec["tracker"]:
        rep.violate("summary-search-log-differs-from-tracker", "design_selection_search_log rows differ from the search tracker", wit)
    rep.count("search_log_rows_checked", nrows)
    return oc


def check(tier, seed):
    recs, problems = PC.records(tier, seed)
    rep = Report(PROP)
    rep.rule = (
        "scenario pool as C01; every run that returned a design (through any path, escapes included) is judged. non-trivial = judged run; "
        "distinct by scenario inputs; evidence lists the outcome classes seen (bracketed, clamped-min, clamped-max, unmet-continued)."
    )
    for p in problems:
        rep.inconclusive.append("scenario failed in the harness: " + p)
    classes = {}
    for rec in recs:
        rep.evaluations += 1
        if rec["outcome"] != "design":
            continue
        oc = judge_record(rec, rep)
        classes[oc] = classes.get(oc, 0) + 1
        rep.nontrivial([rec["key"]])
        rep.sample(PC.brief(rec), cap=4)
    rep.extra["outcome_classes_judged"] = classes
    need = {"bracketed": 1, "clamped-min": 1}
    for k in need:
        if classes.get(k, 0) == 0:
            rep.inconclusive.append(f"outcome class {k} never observed")
    if classes.get("unmet-small", 0) + classes.get("unmet-large", 0) == 0:
        rep.inconclusive.append("no unmet-continued design observed")
    rep.assumptions = ["re-simulation is done in place on a deep copy made after the summary was built"]
    return rep


def replay(w):
    from vf.scenario import run_scenario

    rec = run_scenario(w["witness"]["scenario"])
    rep = Report(PROP)
    rep.evaluations = 1
    rep.nontrivial_count = 2
    rep.rule = "replay of one scenario"
    if rec["outcome"] == "design":
        judge_record(rec, rep)
    rep.sample(PC.brief(rec))
    return rep
