"""C12 - the reported results are self-consistent and describe the returned design.

Events : OutputManager.output_dict / text summary / CSV rows of every design run of the scenario pool, the search tracker.
Oracle : count = rows = selected coordinates; drilling = count x H; reported max/min EFT = in-place re-simulation of a deep copy at the
         reported height (1e-3 K); every tracker row satisfies excess = max(max-Tmax, Tmin-min).
"""
from __future__ import annotations

from vf.common import Report
from vf.props import pool_common as PC

PROP = "C12"


def object_case(g, idx):
    """A report built from a search object after a SEQUENCE of hybrid / hourly simulate() and size() calls: what the summary says
    must be what simulating the reported field at the reported height with the reported method gives (deep copy, own call)."""
    import copy
    import warnings

    from ghedesigner.enums import FlowConfigType, TimestepType
    from ghedesigner.output import OutputManager
    from ghedesigner.search_routines import Bisection1D
    from ghedesigner.simulation import SimulationParameters

    from vf.gen import ghe as GG
    from vf.gen import loads as GL
    from vf.gen import phys as GP

    pipe_kind = GP.PIPES[idx % 4]
    ph = GP.draw_phys(g, pipe_kind)
    nx, ny = [(1, 1), (1, 2), (2, 2), (2, 3)][int(g.integers(0, 4))]
    coords = GG.grid(nx, ny, float(round(g.uniform(4.5, 8.0), 1)))
    desc = GL.draw_desc(g, families=["atlanta", "sinus", "spiky", "atlanta_shift", "heating_only"])
    desc["scale"] = 0.02 * nx * ny
    loads = GL.make_loads(desc)
    hmin, hmax = 40.0, float(round(g.uniform(110, 160), 1))
    tg = ph["soil"]["undisturbed_temp"]
    pt, fluid, bh, pipe, grout, soil = GP.bhe_objects(ph, hmax)
    sp = SimulationParameters(1, 12, float(round(tg + g.uniform(8, 18), 1)), float(round(tg - g.uniform(5, 12), 1)), hmax, hmin)
    M = {"hybrid": TimestepType.HYBRID, "hourly": TimestepType.HOURLY}
    ops = []
    for _ in range(int(g.integers(2, 4))):
        ops.append((str(g.choice(["simulate", "simulate", "size"])), str(g.choice(["hybrid", "hourly"])), float(round(g.uniform(hmin, hmax), 2))))
    if len({o[1] for o in ops}) == 1:
        ops.append(("simulate", "hourly" if ops[0][1] == "hybrid" else "hybrid", float(round(g.uniform(hmin, hmax), 2))))
    case = {"pipe": pipe_kind, "field": f"{nx}x{ny}", "ops": ops, "loads": desc, "limits": [sp.max_EFT_allowable, sp.min_EFT_allowable], "heights": [hmin, hmax]}
    out = []
    reports = 0
    with warnings.catch_warnings():
        warnings.simplefilter("ignore")
        search = Bisection1D([coords], [f"{nx}X{ny}"], float(round(g.uniform(0.2, 0.5), 2)), bh, pt, fluid, pipe, grout, soil, sp, loads,
                             method=TimestepType.HYBRID, flow_type=FlowConfigType.BOREHOLE, search=False, field_type="rectangle")
        search.selected_coordinates = coords
        for k, (op, meth, h) in enumerate(ops):
            try:
                if op == "simulate":
                    search.ghe.bhe.b.H = h
                    search.ghe.simulate(method=M[meth])
                else:
                    search.ghe.compute_g_functions()
                    search.ghe.size(method=M[meth])
            except ValueError:
                continue
            om = OutputManager(search, 0.0, "p", "n", "a", "m", load_method=M[meth])
            od = om.output_dict
            reports += 1
            H = float(search.ghe.bhe.b.H)
            g2 = copy.deepcopy(search.ghe)
            mx, mn = g2.simulate(method=M[meth])
            rep_max, rep_min = od["simulation_results"]["max_hp_eft"]["value"], od["simulation_results"]["min_hp_eft"]["value"]
            tag = f"report {k + 1} of {len(ops)} after {[o[0] + ':' + o[1] for o in ops[: k + 1]]}"
            if max(abs(rep_max - mx), abs(rep_min - mn)) > 1e-3:
                out.append(("object:reported-temperatures-not-those-of-reported-height-and-method", f"{tag}: summary {rep_max:.4f}/{rep_min:.4f} vs simulate({meth}) at H={H:.3f}: {mx:.4f}/{mn:.4f}"))
            if od["ghe_system"]["active_borehole_length"]["value"] != H:
                out.append(("object:reported-height-differs", f"{tag}: {od['ghe_system']['active_borehole_length']['value']} vs {H}"))
            if od["ghe_system"]["number_of_boreholes"] != len(coords) or len(om.borehole_location_data_rows) - 1 != len(coords):
                out.append(("object:borehole-count-inconsistent", f"{tag}: {od['ghe_system']['number_of_boreholes']} / {len(om.borehole_location_data_rows) - 1} rows vs {len(coords)}"))
            if abs(od["ghe_system"]["total_drilling"]["value"] - len(coords) * H) > 1e-9 * len(coords) * H:
                out.append(("object:total-drilling-not-count-times-height", f"{tag}: {od['ghe_system']['total_drilling']['value']} vs {len(coords)} x {H}"))
    return out, case, reports


def run_shard(spec):
    if spec.get("part") == "same-process":
        # several design runs, each with its own manager, one after the other in ONE process (the pool runs every scenario in a
        # process of its own): every report must describe its own run only
        from vf.common import rng
        from vf.gen import phys as GP
        from vf.scenario import run_scenario

        g = rng(spec["seed"], PROP + "-same-process", spec["shard"])
        recs = []
        for k in range(spec["n"]):
            method = ["NEARSQUARE", "RECTANGLE", "BIRECTANGLE", "BIZONEDRECTANGLE"][(spec["shard"] + k) % 4]
            cfg = PC.make_cfg(g, method, GP.PIPES[(spec["shard"] + k) % 4], ["BOREHOLE", "SYSTEM"][k % 2], ["interior", "small", "large"][k % 3], True, 36)
            cfg["simulation"]["num_months"] = int(g.choice([12, 24]))
            cfg["loads_desc"]["scale"] = PC.scale_loads_for(cfg, cfg["_class"], g)
            cfg["_class"] = "same-process-" + str(k)
            recs.append(run_scenario(cfg))
        return {"kind": "same-process", "records": recs}
    if spec.get("part") == "objects":
        from vf.common import rng

        g = rng(spec["seed"], PROP, spec["shard"])
        res = {"kind": "objects", "viol": [], "cases": [], "reports": 0}
        for i in range(spec["n"]):
            out, case, reports = object_case(g, spec["shard"] * spec["n"] + i)
            res["reports"] += reports
            res["cases"].append([case["pipe"], case["field"], "+".join(o[0] + ":" + o[1] for o in case["ops"]), case["loads"]["seed"]])
            for mech, msg in out:
                res["viol"].append({"mechanism": mech, "message": f"{case['field']} {case['pipe']}: {msg}", "case": case})
        return res
    from vf.scenario import run_shard as rs

    return rs(spec)


def judge_record(rec, rep):
    f = rec["final"]
    if "summary_error" in rec:
        se = rec["summary_error"]
        nm = rec["cfg"]["simulation"]["num_months"]
        mech = f"summary-construction-raised:{se['type']}"
        if se["type"] == "IndexError" and nm % 12 != 0 and nm > 12 and any("get_summary" in w for w in se["where"]):
            mech = "summary-crashes-when-horizon-is-not-a-multiple-of-12-months"
        rep.violate(mech, f"{PC.method_of(rec)} {nm} months: prepare_results raised {se['type']}: {se['msg']} at {se['where']}", {"scenario": rec["cfg"], "error": se})
        return PC.outcome_class(rec)
    s = rec["summary"]
    rs = rec["resim"]
    oc = PC.outcome_class(rec)
    wit = {"scenario": rec["cfg"], "final": {k: f[k] for k in ("nbh", "H", "hmin", "hmax", "tmax", "tmin")}, "summary": {k: s[k] for k in s if k != "search_log_rows"}, "resim": rs, "outcome": oc}
    if not (s["number_of_boreholes"] == s["borefield_rows"] == f["nbh"] == f["nbh_gfunction"]):
        rep.violate("borehole-count-inconsistent", f"summary {s['number_of_boreholes']}, BoreFieldData rows {s['borefield_rows']}, selected coordinates {f['nbh']}, g-function field {f['nbh_gfunction']}", wit)
    if s["active_borehole_length"] != f["H"]:
        rep.violate("reported-height-differs", f"summary {s['active_borehole_length']} vs object {f['H']}", wit)
    if abs(s["total_drilling"] - f["nbh"] * f["H"]) > 1e-9 * max(1.0, f["nbh"] * f["H"]):
        rep.violate("total-drilling-not-count-times-height", f"{s['total_drilling']} vs {f['nbh']} x {f['H']}", wit)
    dmax = abs(s["max_hp_eft"] - rs["max"])
    dmin = abs(s["min_hp_eft"] - rs["min"])
    rep.worst("worst_reported_vs_resimulated_K", max(dmax, dmin))
    if max(dmax, dmin) > 1e-3:
        mech = "reported-temperatures-not-those-of-reported-height"
        if oc in ("clamped-min", "unmet-small") or abs(f["H"] - f["hmin"]) < 1e-9:
            mech = "stale-temperatures-when-clamped-at-minimum-height"
        rep.violate(mech, f"{PC.method_of(rec)} {oc}: summary max/min {s['max_hp_eft']:.4f}/{s['min_hp_eft']:.4f} vs re-simulated at H={f['H']:.3f}: {rs['max']:.4f}/{rs['min']:.4f}", wit)
    # the text summary (what SimulationSummary.txt holds) must tell the same story, within its print precision
    tl = s.get("text_lines") or {}
    try:
        if tl.get("NBH:") is not None and int(float(tl["NBH:"])) != f["nbh"]:
            rep.violate("text-summary-borehole-count-differs", f"text NBH {tl['NBH:']} vs {f['nbh']}", wit)
        if tl.get("Max HP EFT, C:") is not None and abs(float(tl["Max HP EFT, C:"]) - rs["max"]) > 1.6e-3:
            rep.violate("text-summary-temperatures-differ", f"text max EFT {tl['Max HP EFT, C:']} vs re-simulated {rs['max']:.4f}", wit)
        if tl.get("Min HP EFT, C:") is not None and abs(float(tl["Min HP EFT, C:"]) - rs["min"]) > 1.6e-3:
            rep.violate("text-summary-temperatures-differ", f"text min EFT {tl['Min HP EFT, C:']} vs re-simulated {rs['min']:.4f}", wit)
        if tl.get("Total Drilling, m:") is not None and abs(float(tl["Total Drilling, m:"]) - f["nbh"] * f["H"]) > 0.51:
            rep.violate("text-summary-drilling-differs", f"text total drilling {tl['Total Drilling, m:']} vs {f['nbh'] * f['H']:.2f}", wit)
        rep.count("text_summaries_checked")
    except ValueError:
        rep.count("text_summary_lines_not_parsed")
    nrows = 0
    for r in s["search_log_rows"]:
        nrows += 1
        exp = max(r[2] - f["tmax"], f["tmin"] - r[3])
        if abs(r[1] - exp) > 1e-12 * max(1.0, abs(exp)):
            rep.violate("search-log-row-excess-wrong", f"row {r}: excess {r[1]} vs max(max-Tmax, Tmin-min) = {exp}", wit)
            break
    if s["search_log_rows"] != rec["tracker"]:
        rep.violate("summary-search-log-differs-from-tracker", "design_selection_search_log rows differ from the search tracker", wit)
    rep.count("search_log_rows_checked", nrows)
    return oc


def check(tier, seed):
    recs, problems = PC.records(tier, seed)
    rep = Report(PROP)
    rep.rule = (
        "scenario pool as C01; every run that returned a design (through any path, escapes included) is judged. non-trivial = judged run; "
        "distinct by scenario inputs; evidence lists the outcome classes seen (bracketed, clamped-min, clamped-max, unmet-continued). Object level: real "
        "search objects on 1-6 borehole fields, sequences of simulate()/size() with the HYBRID and the HOURLY method (both occur in every sequence), a "
        "report built after every step with the method of that step and compared with the same call on a deep copy. Same process: three designs with "
        "their own managers one after the other in one process, each judged as above plus: rows of the reported search log = candidates this run evaluated."
    )
    for p in problems:
        rep.inconclusive.append("scenario failed in the harness: " + p)
    classes = {}
    for rec in recs:
        rep.evaluations += 1
        if rec["outcome"] != "design":
            continue
        oc = judge_record(rec, rep)
        classes[oc] = classes.get(oc, 0) + 1
        rep.nontrivial([rec["key"]])
        rep.sample(PC.brief(rec), cap=4)
    rep.extra["outcome_classes_judged"] = classes
    # object level: reports after sequences of hybrid and hourly runs on one search object
    from vf.pool import run_pool

    n_obj = {"quick": 2, "thorough": 10}[tier]
    for r in run_pool("vf.props.C12", [{"part": "objects", "seed": seed, "shard": s_, "n": n_obj} for s_ in range(16)], timeout=3600):
        if "_harness_error" in r:
            rep.inconclusive.append("object shard failed: " + r["_harness_error"][:300])
            continue
        rep.evaluations += r["reports"]
        rep.count("object_level_reports_after_mixed_method_sequences", r["reports"])
        for c in r["cases"]:
            rep.nontrivial(["object"] + c)
        for v in r["viol"]:
            rep.violate(v["mechanism"], v["message"], {"case": v["case"]})
    # several designs in one process
    n_sp = {"quick": 3, "thorough": 5}[tier]
    for r in run_pool("vf.props.C12", [{"part": "same-process", "seed": seed, "shard": s_, "n": n_sp} for s_ in range({"quick": 6, "thorough": 16}[tier])], timeout=5400):
        if "_harness_error" in r:
            rep.inconclusive.append("same-process shard failed: " + r["_harness_error"][:300])
            continue
        for pos, rec in enumerate(r["records"]):
            if "harness_error" in rec:
                rep.inconclusive.append("same-process scenario failed in the harness: " + rec["harness_error"][:200])
                continue
            rep.evaluations += 1
            if rec["outcome"] != "design" or "summary" not in rec:
                continue
            judge_record(rec, rep)
            rep.count("reports_of_runs_that_followed_another_run_in_the_same_process", 1 if pos > 0 else 0)
            n_eval = rec["hits"].get("calculate_excess", 0) + rec["hits"].get("rowwise_calculate_excess", 0)
            n_rows = len(rec["summary"]["search_log_rows"])
            if n_rows != n_eval:
                rep.violate("search-log-rows-not-those-of-this-run", f"{PC.method_of(rec)} (run {pos + 1} of its process): the reported search log has {n_rows} rows, this run evaluated {n_eval} candidates", {"scenario": rec["cfg"], "position_in_process": pos})
            rep.nontrivial(["same-process", pos, rec["key"]])
    if rep.extra.get("reports_of_runs_that_followed_another_run_in_the_same_process", 0) == 0:
        rep.inconclusive.append("no report of a run that followed another run in the same process")
    if rep.extra.get("object_level_reports_after_mixed_method_sequences", 0) == 0:
        rep.inconclusive.append("no object-level report was built")
    need = {"bracketed": 1, "clamped-min": 1}
    for k in need:
        if classes.get(k, 0) == 0:
            rep.inconclusive.append(f"outcome class {k} never observed")
    if classes.get("unmet-small", 0) + classes.get("unmet-large", 0) == 0:
        rep.inconclusive.append("no unmet-continued design observed")
    rep.assumptions = ["re-simulation is done in place on a deep copy made after the summary was built"]
    return rep


def replay(w):
    from vf.scenario import run_scenario

    rec = run_scenario(w["witness"]["scenario"])
    rep = Report(PROP)
    rep.evaluations = 1
    rep.nontrivial_count = 2
    rep.rule = "replay of one scenario"
    if rec["outcome"] == "design":
        judge_record(rec, rep)
    rep.sample(PC.brief(rec))
    return rep
