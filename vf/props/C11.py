"""C11 - combined g-function well formed; interpolation returns stored curves; radius correction; UHTR == analytical FLS.

Monitors: wrapper on BaseGHE.combine_sts_lts (every call made by grab_g_function of real GHE objects and direct feeds),
          post-conditions on GFunction.g_function_interpolation / borehole_radius_correction,
          calc_g_func_for_multiple_lengths(boundary="UHTR") compared with the harness's own finite-line-source integral.
"""
from __future__ import annotations

import math
import warnings

import numpy as np

from vf.common import Report, rng
from vf.gen import ghe as GG
from vf.gen import loads as GL
from vf.gen import phys as GP
from vf.oracle import fls
from vf.pool import run_pool

PROP = "C11"
NSHARDS = 16


class CombineTap:
    def __init__(self):
        from ghedesigner.ground_heat_exchangers import BaseGHE

        self.cls = BaseGHE
        self.orig = BaseGHE.__dict__["combine_sts_lts"]
        self.hits = 0
        self.bad = []
        self.kept_counts = set()
        tap = self
        orig_fn = self.orig.__func__

        def wrapped(log_time_lts, g_lts, log_time_sts, g_sts, *a_, **kw_):
            r = orig_fn(log_time_lts, g_lts, log_time_sts, g_sts, *a_, **kw_)
            tap.hits += 1
            msg = judge_combined(r, log_time_lts, g_lts, log_time_sts, g_sts)
            tap.kept_counts.add(len(r.x) - len(log_time_lts))
            if msg and len(tap.bad) < 10:
                tap.bad.append(msg)
            return r

        BaseGHE.combine_sts_lts = staticmethod(wrapped)

    def uninstall(self):
        self.cls.combine_sts_lts = self.orig


def judge_combined(r, lt_lts, g_lts, lt_sts, g_sts):
    x = np.asarray(r.x, dtype=float)
    y = np.asarray(r.y, dtype=float)
    lt_lts = np.asarray(lt_lts, dtype=float)
    lt_sts = np.asarray(lt_sts, dtype=float)
    first = lt_lts.min()
    if np.any(lt_sts == first):
        return None  # exact tie between a short-time abscissa and the first long-time point: not judged (not reachable from floats in practice)
    if not np.all(np.diff(x) > 0):
        k = int(np.argmin(np.diff(x)))
        return {"mechanism": "combined-axis-not-strictly-increasing", "message": f"x[{k}]={x[k]} >= x[{k + 1}]={x[k + 1]}"}
    n_l = len(lt_lts)
    if len(x) < n_l or not np.array_equal(x[-n_l:], lt_lts) or not np.array_equal(y[-n_l:], np.asarray(g_lts, dtype=float)):
        return {"mechanism": "long-time-part-not-reproduced", "message": "the last points are not the long-time abscissae/values passed in"}
    keep = lt_sts < first
    exp_x = lt_sts[keep]
    exp_y = np.asarray(g_sts, dtype=float)[keep]
    if len(x) - n_l != len(exp_x) or not np.array_equal(x[: len(exp_x)], exp_x) or not np.array_equal(y[: len(exp_x)], exp_y):
        return {
            "mechanism": "short-time-part-wrong",
            "message": f"{len(x) - n_l} short-time points kept, expected the {len(exp_x)} points strictly below the first long-time point {first}",
        }
    return None


def part_combine_direct(g, res):
    """Direct feeds of combine_sts_lts: short-time end on both sides of the first long-time point."""
    from ghedesigner.ground_heat_exchangers import BaseGHE
    from ghedesigner.utilities import eskilson_log_times

    lt = eskilson_log_times()
    for _ in range(20):
        n = int(g.integers(5, 40))
        end = float(g.choice([-13.0, -9.0, -8.51, -8.49, -8.0, -6.0, -2.0]) + g.uniform(-0.3, 0.3))
        xs = np.linspace(float(g.uniform(-52, -40)), end, n).tolist()
        ys = np.cumsum(g.uniform(0, 0.3, n)).tolist()
        yl = (ys[-1] + np.cumsum(g.uniform(0.05, 0.5, len(lt)))).tolist()
        BaseGHE.combine_sts_lts(lt, yl, xs, ys)
        res["combine_direct"] += 1


def part_real_ghe(g, idx, res, real):
    """grab_g_function of a real GHE: the long-time part must be the radius-corrected interpolated curve."""
    arr = GP.PIPES[idx % 4]
    ph = GP.draw_phys(g, arr)
    # choose H and diffusivity so that the short-time end falls on both sides of ln(t/ts) = -8.5
    H = float(g.choice([20.0, 30.0, 60.0, 150.0, 300.0, 400.0]) * g.uniform(0.9, 1.1))
    coords = GG.grid(int(g.integers(1, 6)), int(g.integers(1, 6)), float(round(g.uniform(4, 8), 2)))
    loads = GL.make_loads({"family": "sinus", "seed": int(g.integers(0, 1 << 30)), "scale": 0.3})
    ghe = GG.make_ghe(ph, coords, H, GP.draw_flow(g, arr), loads, 12, rgen=g, real_g=real)
    with warnings.catch_warnings():
        warnings.simplefilter("ignore")
        gi, gbhw = ghe.grab_g_function(ghe.B_spacing / H)
    raw = np.asarray(ghe.gFunction.g_lts[H], dtype=float)
    n_l = len(raw)
    exp = raw - math.log(ghe.bhe.b.r_b / ghe.gFunction.r_b_values[H])
    if not np.allclose(np.asarray(gi.y)[-n_l:], exp, rtol=0, atol=1e-12):
        res["viol"].append({"mechanism": "long-time-values-not-radius-corrected-curve", "message": "grab_g_function long-time part differs from stored curve - ln(rb*/rb)", "case": {"H": H, "pipe": arr}})
    # ---- the same request again after the object's long-time family was replaced (what compute_g_functions() does between the
    # search and the sizing) and after the nominal radius changed: the long-time part must follow the family and radius of *now*
    h_req = float(round(H * g.uniform(0.8, 0.95), 3))
    with warnings.catch_warnings():
        warnings.simplefilter("ignore")
        ghe.grab_g_function(ghe.B_spacing / h_req)  # first request at this B/H: answered from the single-height family
    n_bh = len(coords)
    if real and n_bh <= 9:
        ghe.sim_params.min_height = 2.0 * h_req - H * 1.1
        ghe.sim_params.max_height = H * 1.1
        with warnings.catch_warnings():
            warnings.simplefilter("ignore")
            ghe.compute_g_functions()
        kind = "compute_g_functions"
    else:
        base2 = np.array(GG.synthetic_g_lts(g, n_bh)) * float(g.uniform(1.05, 1.3))
        fam = {float(round(H * 0.6, 3)): (base2 * 0.97).tolist(), h_req: base2.tolist(), float(round(H * 1.2, 3)): (base2 * 1.02).tolist()}
        rb_f = ghe.bhe.b.r_b * float(g.uniform(0.8, 1.25))
        rb_fam = {hh: rb_f * (hh / h_req if g.random() < 0.5 else 1.0) for hh in fam} if g.random() < 0.5 else rb_f
        ghe.gFunction = GG.make_gfunction(fam, ghe.B_spacing, rb_fam, ghe.bhe.b.D, coords)
        kind = "family-replaced"
    stored_h = min(ghe.gFunction.g_lts, key=lambda hh: abs(hh - h_req))
    if abs(stored_h - h_req) < 1e-9 * h_req:
        with warnings.catch_warnings():
            warnings.simplefilter("ignore")
            gi2, _ = ghe.grab_g_function(ghe.B_spacing / h_req)
        raw2 = np.asarray(ghe.gFunction.g_lts[stored_h], dtype=float)
        exp2 = raw2 - math.log(ghe.bhe.b.r_b / ghe.gFunction.r_b_values[stored_h])
        if not np.allclose(np.asarray(gi2.y)[-len(raw2):], exp2, rtol=0, atol=1e-9):
            res["viol"].append({"mechanism": "long-time-values-stale-after-" + kind, "message": f"second request at the same B/H after {kind}: max |dg| = {float(np.max(np.abs(np.asarray(gi2.y)[-len(raw2):] - exp2))):.3g} from the stored curve of the current family", "case": {"H": H, "H_requested": h_req, "pipe": arr, "boreholes": n_bh}})
        res["requests_after_family_change"] = res.get("requests_after_family_change", 0) + 1
        # same family, other radius
        rb_old = ghe.bhe.b.r_b
        ghe.bhe.b.r_b = rb_old * float(g.uniform(0.7, 0.9))
        with warnings.catch_warnings():
            warnings.simplefilter("ignore")
            gi3, _ = ghe.grab_g_function(ghe.B_spacing / h_req)
        exp3 = raw2 - math.log(ghe.bhe.b.r_b / ghe.gFunction.r_b_values[stored_h])
        if not np.allclose(np.asarray(gi3.y)[-len(raw2):], exp3, rtol=0, atol=1e-9):
            res["viol"].append({"mechanism": "long-time-values-ignore-a-changed-borehole-radius", "message": f"request after r_b {rb_old:.4f} -> {ghe.bhe.b.r_b:.4f}: max |dg| = {float(np.max(np.abs(np.asarray(gi3.y)[-len(raw2):] - exp3))):.3g}", "case": {"H": H, "H_requested": h_req, "pipe": arr}})
        ghe.bhe.b.r_b = rb_old
    sts_end = float(ghe.radial_numerical.lntts[-1])
    res["sts_end_below" if sts_end < -8.5 else "sts_end_above"] += 1
    res["real_ghe"] += 1
    return {"H": H, "pipe": arr, "sts_end": sts_end, "n_combined": int(len(gi.x))}


def part_interpolation(g, res):
    """Families of 1..5 heights: interpolating at a stored height returns the stored curve."""
    from ghedesigner.utilities import eskilson_log_times

    nh = int(g.integers(1, 6))
    hs = sorted({float(round(h, 3)) for h in g.uniform(20, 400, nh)})
    coords = GG.grid(int(g.integers(1, 5)), int(g.integers(1, 5)), 5.0)
    base = np.array(GG.synthetic_g_lts(g, len(coords)))
    # the family may be stored in any order (a dict built from a descending or shuffled list of heights is just as valid)
    order = int(g.integers(0, 3))
    hs_store = hs if order == 0 else (hs[::-1] if order == 1 else [hs[i] for i in g.permutation(len(hs))])
    curves = {h: (base * (1 + 0.002 * (h - 100) / 100) + 0.1 * math.log(h / 100.0)).tolist() for h in hs_store}
    res["storage_orders"].add(["ascending", "descending", "shuffled"][order])
    b = float(g.uniform(3, 9))
    r_b = float(g.uniform(0.05, 0.11))
    # the stored radius is kept per height (library-style families with constant r_b / H, curves merged from different radii)
    per_height_radius = len(hs) >= 2 and g.random() < 0.4
    rb_of = {h: (float(round(r_b * h / hs[0], 6)) if per_height_radius else r_b) for h in hs}
    if per_height_radius:
        res["per_height_radius_families"] = res.get("per_height_radius_families", 0) + 1
    for h in hs:
        r_b = rb_of[h]
        gf = GG.make_gfunction(curves, b, rb_of, 2.0, coords)  # fresh object: the interpolation table is cached per object
        with warnings.catch_warnings():
            warnings.simplefilter("ignore")
            try:
                got, rb_v, d_v, h_eq = gf.g_function_interpolation(b / h)
            except Exception as e:  # noqa: BLE001
                res["viol"].append({"mechanism": f"interpolation-raised:{type(e).__name__}", "message": f"{len(hs)} heights, H={h}: {e}", "case": {"heights": hs, "H": h}})
                continue
        err = float(np.max(np.abs(np.asarray(got, dtype=float) - np.asarray(curves[h]))))
        res["worst_interp_err"] = max(res["worst_interp_err"], err)
        if err > 1e-9 or abs(float(rb_v) - r_b) > 1e-12:
            res["viol"].append({"mechanism": "interpolation-at-stored-height-differs", "message": f"{len(hs)} heights, H={h}: max |dg| {err:.3g}, rb {rb_v} vs {r_b}", "case": {"heights": hs, "H": h}})
        res["interp_checked"] += 1
        res["families"].add(len(hs))
    # radius correction
    from ghedesigner.gfunction import GFunction

    gl = base.tolist()
    rb = float(g.uniform(0.04, 0.12))
    r1, r2 = float(g.uniform(0.04, 0.12)), float(g.uniform(0.04, 0.12))
    same = GFunction.borehole_radius_correction(gl, rb, rb)
    if same != gl:
        res["viol"].append({"mechanism": "radius-correction-not-identity", "message": f"rb={rb}", "case": {"rb": rb}})
    one = GFunction.borehole_radius_correction(gl, rb, r2)
    two = GFunction.borehole_radius_correction(GFunction.borehole_radius_correction(gl, rb, r1), r1, r2)
    exp = base - math.log(r2 / rb)
    if np.max(np.abs(np.asarray(one) - exp)) > 1e-12 or np.max(np.abs(np.asarray(one) - np.asarray(two))) > 1e-12:
        res["viol"].append({"mechanism": "radius-correction-not-additive-in-log-ratio", "message": f"rb={rb}, r1={r1}, r2={r2}", "case": {"rb": rb, "r1": r1, "r2": r2}})
    res["radius_checked"] += 1


def field_shapes(g, big):
    kind = int(g.integers(0, 6))
    b = float(round(g.uniform(3.5, 9), 2))
    if kind == 0:
        return "single", [(0.0, 0.0)]
    if kind == 1:
        nx, ny = int(g.integers(1, 13 if big else 8)), int(g.integers(1, 13 if big else 8))
        return f"grid{nx}x{ny}", GG.grid(nx, ny, b)
    if kind == 2:
        n, m = int(g.integers(2, 9)), int(g.integers(2, 9))
        return f"L{n}x{m}", [(i * b, 0.0) for i in range(n)] + [(0.0, j * b) for j in range(1, m)]
    if kind == 3:
        n, m = int(g.integers(3, 9)), int(g.integers(2, 9))
        return f"U{n}x{m}", [(i * b, 0.0) for i in range(n)] + [(0.0, j * b) for j in range(1, m)] + [((n - 1) * b, j * b) for j in range(1, m)]
    if kind == 4:  # irregular: jittered grid, all pairs at least 2 m apart
        n = int(g.integers(2, 150 if big else 40))
        pts = []
        while len(pts) < n:
            p = (float(g.uniform(0, 12 * math.sqrt(n))), float(g.uniform(0, 12 * math.sqrt(n))))
            if all(math.dist(p, q) >= 2.0 for q in pts):
                pts.append(p)
        return f"irregular{n}", pts
    nx, ny = int(g.integers(2, 7)), int(g.integers(2, 7))
    bx, by = b, float(round(g.uniform(3.5, 9), 2))
    return f"rect{nx}x{ny}", [(i * bx, j * by) for i in range(nx) for j in range(ny)]


def part_uhtr(g, idx, res, big):
    from ghedesigner.gfunction import calc_g_func_for_multiple_lengths
    from ghedesigner.utilities import eskilson_log_times

    arr = GP.PIPES[idx % 4]
    ph = GP.draw_phys(g, arr)
    name, coords = field_shapes(g, big)
    H = float(round(g.uniform(20, 400), 1))
    pt, fluid, bh, pipe, grout, soil = GP.bhe_objects(ph, H)
    lt = eskilson_log_times()
    alpha = soil.k / soil.rhoCp
    ts = H * H / (9.0 * alpha)
    with warnings.catch_warnings():
        warnings.simplefilter("ignore")
        gf = calc_g_func_for_multiple_lengths(5.0, [H], bh.r_b, bh.D, 0.3, pt, lt, coords, fluid, pipe, grout, soil, boundary="UHTR")
    got = np.asarray(gf.g_lts[H], dtype=float)
    ref = fls.g_function(coords, H, bh.D, bh.r_b, alpha, np.exp(lt) * ts)
    tol = 1e-6 if len(coords) == 1 else 1e-4
    err = float(np.max(np.abs(got - ref) / np.maximum(1.0, np.abs(ref))))
    case = {"field": name, "n": len(coords), "H": H, "D": bh.D, "r_b": bh.r_b, "alpha": alpha}
    key = "worst_uhtr_single" if len(coords) == 1 else "worst_uhtr_field"
    res[key] = max(res[key], err)
    if list(gf.log_time) != list(lt) or gf.bore_locations != coords:
        res["viol"].append({"mechanism": "gfunction-object-does-not-carry-inputs", "message": "log_time / bore_locations differ from the arguments", "case": case})
    if err > tol:
        # classifier of the known finding: the deviation comes from pygfunction's 'equivalent' solver (borehole clustering), i.e. the SAME
        # call with solver="similarities" reproduces the analytical sum (<= 2e-5) while the tool's default does not, and it is < 1e-3
        mech = "uhtr-differs-from-finite-line-source"
        if len(coords) > 1 and err < 1e-3:
            with warnings.catch_warnings():
                warnings.simplefilter("ignore")
                gs = calc_g_func_for_multiple_lengths(5.0, [H], bh.r_b, bh.D, 0.3, pt, lt, coords, fluid, pipe, grout, soil, boundary="UHTR", solver="similarities")
            err_s = float(np.max(np.abs(np.asarray(gs.g_lts[H], dtype=float) - ref) / np.maximum(1.0, np.abs(ref))))
            case["similarities_solver_rel_dev"] = err_s
            if err_s <= 2e-5:
                mech = "uhtr-equivalent-solver-error-on-irregular-field"
        res["viol"].append({"mechanism": mech, "message": f"{name} H={H}: max rel |dg| = {err:.3g} > {tol}", "case": case})
    res["uhtr_checked"] += 1
    res["nontrivial"].append([name, H, round(bh.r_b, 5)])
    if len(coords) == 1 and res["mift_checked"] < res["mift_budget"]:
        # design-typical turbulent flow, scaled with depth: at very low flow in a deep borehole the inlet/outlet legs
        # short-circuit and the MIFT curve legitimately departs from the uniform-heat-rate one (154 % seen at 0.03 kg/s, 386 m)
        m_flow = float(g.uniform(0.25, 1.0)) * max(1.0, H / 150.0) / 1000.0 * fluid.rho
        with warnings.catch_warnings():
            warnings.simplefilter("ignore")
            gm = calc_g_func_for_multiple_lengths(5.0, [H], bh.r_b, bh.D, m_flow, pt, lt, coords, fluid, pipe, grout, soil)
        ratio = np.asarray(gm.g_lts[H], dtype=float) / ref
        dev = float(np.max(np.abs(ratio - 1.0)))
        res["worst_mift_dev"] = max(res["worst_mift_dev"], dev)
        res["mift_checked"] += 1
        if dev > 0.2:
            res["viol"].append({"mechanism": "default-mift-single-borehole-off-by-more-than-20-percent", "message": f"H={H}, m_flow={m_flow}: max |ratio-1| = {dev:.3g}", "case": {**case, "pipe": arr, "m_flow": m_flow}})
    return case


def oracle_selfcheck():
    worst = 0.0
    for d, t, al, H, D in [(0.075, 36000.0, 1e-6, 100.0, 2.0), (5.0, 3e8, 1e-6, 100.0, 2.0), (50.0, 3e9, 1.5e-6, 300.0, 4.0), (0.05, 1e6, 5e-7, 20.0, 0.5)]:
        worst = max(worst, abs(fls.h_values([d], t, al, H, D)[0] - fls.h_quad(d, t, al, H, D)))
    return worst


def run_shard(spec):
    g = rng(spec["seed"], PROP, spec["shard"])
    tap = CombineTap()
    res = {
        "viol": [], "nontrivial": [], "samples": [], "combine_direct": 0, "real_ghe": 0, "sts_end_below": 0, "sts_end_above": 0,
        "interp_checked": 0, "families": set(), "storage_orders": set(), "radius_checked": 0, "worst_interp_err": 0.0, "uhtr_checked": 0, "worst_uhtr_single": 0.0,
        "worst_uhtr_field": 0.0, "mift_checked": 0, "worst_mift_dev": 0.0, "mift_budget": spec["mift"], "selfcheck": oracle_selfcheck(),
    }
    for i in range(spec["n"]):
        idx = spec["shard"] * 1000 + i
        try:
            part_combine_direct(g, res)
            s1 = part_real_ghe(g, idx, res, real=(i % 4 == 0))
            for _ in range(5):
                part_interpolation(g, res)
            s2 = part_uhtr(g, idx, res, spec["big"])
            if not res["samples"]:
                res["samples"].append({"real_ghe": s1, "uhtr": s2})
        except Exception as e:  # noqa: BLE001
            import traceback

            res["viol"].append({"mechanism": f"exception:{type(e).__name__}", "message": traceback.format_exc()[-500:], "case": {}})
    for b in tap.bad:
        res["viol"].append({**b, "case": {"source": "combine_sts_lts wrapper"}})
    res["combine_hits"] = tap.hits
    res["kept_counts"] = sorted(tap.kept_counts)
    res["families"] = sorted(res["families"])
    res["storage_orders"] = sorted(res["storage_orders"])
    tap.uninstall()
    return res


def check(tier, seed):
    n = {"quick": 160, "thorough": 1600}[tier]
    specs = [{"seed": seed, "shard": s, "n": n // NSHARDS, "big": tier == "thorough", "mift": 2 if tier == "quick" else 6} for s in range(NSHARDS)]
    results = run_pool("vf.props.C11", specs, timeout=5400)
    rep = Report(PROP)
    rep.rule = (
        "per case: 20 direct feeds of combine_sts_lts (short-time end on both sides of the first long-time point), one real GHE "
        "(H and diffusivity chosen to put the short-time end on both sides of -8.5; every 4th with pygfunction's MIFT curve) whose "
        "grab_g_function is judged by the wrapper, 5 interpolation families (1..5 stored heights) + radius-correction identities, and one "
        "UHTR field (single, grids, rectangles, L, U, irregular up to 40 [quick] / 150 [thorough] boreholes, H 20-400 m) against the "
        "analytical finite-line-source sum; single boreholes also compare the default MIFT curve (<= 20 %). "
        "non-trivial = UHTR field compared with the FLS oracle; distinct by (shape, H, r_b)."
    )
    hits = 0
    fam = set()
    kept = set()
    worst_self = 0.0
    for r in results:
        if "_harness_error" in r:
            rep.inconclusive.append("shard failed: " + r["_harness_error"][:300])
            continue
        rep.evaluations += r["uhtr_checked"] + r["real_ghe"] + r["interp_checked"] + r["combine_direct"]
        hits += r["combine_hits"]
        fam.update(r["families"])
        rep.extra.setdefault("family_storage_orders_seen", [])
        rep.extra["family_storage_orders_seen"] = sorted(set(rep.extra["family_storage_orders_seen"]) | set(r.get("storage_orders", [])))
        kept.update(r["kept_counts"])
        worst_self = max(worst_self, r["selfcheck"])
        rep.count("requests_repeated_after_family_or_radius_change", r.get("requests_after_family_change", 0))
        rep.count("families_with_a_radius_per_height", r.get("per_height_radius_families", 0))
        for k2 in ("combine_direct", "real_ghe", "sts_end_below", "sts_end_above", "interp_checked", "radius_checked", "uhtr_checked", "mift_checked"):
            rep.count(k2, r[k2])
        for k2 in ("worst_interp_err", "worst_uhtr_single", "worst_uhtr_field", "worst_mift_dev"):
            rep.worst(k2, r[k2])
        for nt in r["nontrivial"]:
            rep.nontrivial(nt)
        for s in r["samples"]:
            rep.sample(s)
        for v in r["viol"]:
            rep.violate(v["mechanism"], v["message"], {"case": v["case"]})
    rep.extra["combine_sts_lts_wrapper_hits"] = hits
    from vf.props import pool_common as _PC

    _PC.add_workload_monitor_results(rep, PROP, tier, seed)
    rep.extra["interpolation_family_sizes_seen"] = sorted(fam)
    rep.extra["short_time_points_kept_seen"] = sorted(kept)[:40]
    rep.extra["fls_oracle_selfcheck_vs_quad"] = worst_self
    if hits == 0:
        rep.inconclusive.append("combine_sts_lts wrapper never reached")
    if worst_self > 1e-10:
        rep.inconclusive.append(f"FLS oracle self-check failed ({worst_self})")
    if rep.extra.get("sts_end_below", 0) == 0 or rep.extra.get("sts_end_above", 0) == 0:
        rep.inconclusive.append("short-time end never fell on both sides of the first long-time point")
    if sorted(fam) != [1, 2, 3, 4, 5] and rep.extra.get("interp_checked", 0) > 100:
        rep.inconclusive.append(f"interpolation families seen: {sorted(fam)}")
    rep.assumptions = [
        "1e-4 / 1e-6 are read relative to max(1,|g|) (pygfunction's 'equivalent' grouping differs from the exact sum by ~2e-6 relative on a 10x10 field)",
        "the MIFT-within-20-% clause is judged for design-typical turbulent flows only (0.25-1 L/s, scaled with depth beyond 150 m)",
        "exact ties between a short-time abscissa and the first long-time point are not judged",
        "FLS oracle: Gauss-Legendre (600 nodes in ln s), self-checked against adaptive quadrature on every run",
    ]
    return rep


def replay(w):
    rep = Report(PROP)
    rep.rule = "replay not supported for C11 witnesses (cases are regenerated from seed/shard); rerun with the same VERIF_SEED"
    rep.evaluations = 1
    rep.nontrivial_count = 2
    rep.sample(w.get("witness", {}))
    return rep
