"""C13 - results are deterministic and independent of call history.

Events : digest = raw float bytes of (selected coordinates, height, hp_eft, dTb) of a design; the same for object-level simulations.
Oracle : bit equality between a fresh run and: repeated find_design on one manager, repeated set_design + find_design, permuted setter
         order, the same scenario after unrelated designs in the same process, a different nominal borehole height, a second process with
         another PYTHONHASHSEED; and between an object with a random history of simulate(HYBRID/HOURLY)/size()/height changes and a fresh one.
"""
from __future__ import annotations

import contextlib
import hashlib
import io
import json
import os
import subprocess
import sys
import warnings

import numpy as np

from vf.common import Report, jdump, rng
from vf.gen import config as GC
from vf.gen import ghe as GG
from vf.gen import loads as GL
from vf.gen import phys as GP
from vf.pool import run_pool
from vf.props import pool_common as PC

PROP = "C13"
NSHARDS = 16
SETTERS = ["fluid", "grout", "soil", "pipe", "borehole", "loads", "sim", "geometry"]


def digest_search(mgr):
    s = mgr._search
    h = hashlib.sha256()
    h.update(np.asarray([tuple(map(float, c)) for c in s.selected_coordinates], dtype=float).tobytes())
    h.update(np.float64(s.ghe.bhe.b.H).tobytes())
    h.update(np.asarray(s.ghe.hp_eft, dtype=float).tobytes())
    h.update(np.asarray(s.ghe.dTb, dtype=float).tobytes())
    return h.hexdigest()[:24], len(s.selected_coordinates), float(s.ghe.bhe.b.H)


def quiet(fn):
    sink = io.StringIO()
    with warnings.catch_warnings():
        warnings.simplefilter("ignore")
        with contextlib.redirect_stdout(sink), contextlib.redirect_stderr(sink):
            return fn()


def design(cfg, loads, **kw):
    def go():
        m = GC.build_manager(cfg, loads=loads, **kw)
        try:
            m.find_design()
        except ValueError as e:
            return m, ("ValueError", str(e)[:60], 0.0)
        return m, digest_search(m)

    return quiet(go)


def small_cfg(g, method, idx):
    pipe = GP.PIPES[idx % 4]
    cfg = GC.draw_config(g, method=method, pipe=pipe, cap_bh=36)
    cfg["simulation"]["num_months"] = int(g.choice([12, 24, 36, 37]))
    cfg["design"]["continue_if_design_unmet"] = True
    cfg["loads_desc"]["scale"] = PC.scale_loads_for(cfg, str(g.choice(["small", "interior", "interior", "large"])), g)
    return cfg


def child_digest(cfg, before=()):
    """Same scenario in a second interpreter with a different hash seed, optionally after other designs run first in that process."""
    env = dict(os.environ)
    env["PYTHONHASHSEED"] = "4242"
    p = subprocess.run([sys.executable, "-m", "vf.props.C13", "--child"], input=jdump({"before": list(before), "cfg": cfg}).encode(), capture_output=True, env=env, timeout=3600)
    try:
        return tuple(json.loads(p.stdout.decode().strip().split("\n")[-1]))
    except Exception:  # noqa: BLE001
        return ("child-failed", p.stderr.decode()[-200:], 0.0)


def manager_histories(g, idx, res, with_child):
    method = ["NEARSQUARE", "RECTANGLE", "BIRECTANGLE", "BIZONEDRECTANGLE", "BIRECTANGLECONSTRAINED", "NEARSQUARE", "RECTANGLE", "ROWWISE"][idx % 8]
    if method == "ROWWISE" and not res["allow_rowwise"]:
        method = "BIRECTANGLE"
    cfg = small_cfg(g, method, idx)
    if idx % 8 in (5, 6):
        # a cap that leaves exactly one admissible candidate (the single borehole) and loads one borehole can carry: the search then
        # evaluates one field only, at both ends of the height window
        cfg["design"]["max_boreholes"] = 2
        cfg["loads_desc"]["scale"] = PC.scale_loads_for(cfg, "small", g) * float(g.uniform(0.15, 0.6))
        res["single_candidate_scenarios"] = res.get("single_candidate_scenarios", 0) + 1
    loads = GL.make_loads(cfg["loads_desc"])
    case = {"scenario": cfg}
    out = []

    def cmp(name, d, ref, nontrivial_ops):
        res["comparisons"] += 1
        res["histories"][name] = res["histories"].get(name, 0) + 1
        if d != ref:
            out.append({"mechanism": f"history-dependent:{name}:{method}", "message": f"{method}: fresh {ref} vs {name} {d}", "case": case})
        if nontrivial_ops >= 2:
            res["nontrivial"].append([name, method, cfg["loads_desc"]["seed"]])

    m0, ref = design(cfg, loads)
    res["designs"] += 1
    # repeat find_design on the same manager
    d1 = quiet(lambda: (m0.find_design(), digest_search(m0))[1]) if ref[0] != "ValueError" else ref
    res["designs"] += 1
    cmp("find_design-twice", d1, ref, 1)
    # set_design + find_design repeated on the same manager
    if ref[0] != "ValueError":
        def again():
            m0.set_design(flow_rate=cfg["design"]["flow_rate"], flow_type_str=cfg["design"]["flow_type"])
            m0.find_design()
            return digest_search(m0)

        cmp("set_design-and-find_design-again", quiet(again), ref, 2)
        res["designs"] += 1
    # permuted setter order (geometry type for near-square is set inside the geometry step)
    order = [SETTERS[i] for i in g.permutation(len(SETTERS))]
    _, d3 = design(cfg, loads, order=order)
    res["designs"] += 1
    cmp("permuted-setters", d3, ref, 2)
    # other nominal height
    _, d4 = design(cfg, loads, nominal_height=float(g.uniform(10, 500)))
    res["designs"] += 1
    cmp("other-nominal-borehole-height", d4, ref, 1)
    # after unrelated designs in the same process (different method, pipe, loads)
    for k in range(2):
        other = small_cfg(g, ["RECTANGLE", "NEARSQUARE", "BIZONEDRECTANGLE"][(idx + k) % 3], idx + 1 + k)
        design(other, GL.make_loads(other["loads_desc"]))
        res["designs"] += 1
    _, d5 = design(cfg, loads)
    res["designs"] += 1
    cmp("after-unrelated-designs", d5, ref, 3)
    # after "sibling" designs: same land, heights, flow and pipe arrangement, but other media / other loads and limits - the
    # situation in which a cache keyed by too few inputs hands back another design's intermediate results
    import copy as _copy

    sib = _copy.deepcopy(cfg)
    sib["grout"]["conductivity"] = float(round(cfg["grout"]["conductivity"] * g.uniform(1.4, 2.2), 3))
    sib["soil"]["conductivity"] = float(round(cfg["soil"]["conductivity"] * g.uniform(0.6, 0.85), 3))
    sib["soil"]["rho_cp"] = float(round(cfg["soil"]["rho_cp"] * g.uniform(1.1, 1.4), 0))
    for kk in ("conductivity", "conductivity_inner", "conductivity_outer"):
        if kk in sib["pipe"]:
            sib["pipe"][kk] = float(round(sib["pipe"][kk] * 1.35, 3))
    sib2 = _copy.deepcopy(cfg)
    sib2["loads_desc"] = {**cfg["loads_desc"], "seed": cfg["loads_desc"]["seed"] + 1, "scale": cfg["loads_desc"]["scale"] * 0.8}
    sib2["design"]["max_eft"] = cfg["design"]["max_eft"] + 1.5
    sib2["design"]["min_eft"] = cfg["design"]["min_eft"] - 1.0
    sib2["simulation"]["num_months"] = 25 if cfg["simulation"]["num_months"] != 25 else 24
    # the siblings must run BEFORE the scenario in a process that has never seen it (the reference above was computed first in
    # this process), so this history runs in a child interpreter: sibling (media), sibling (loads), then the scenario itself
    if res.get("do_sibling", True):
        d7 = child_digest(cfg, before=[sib, sib2])
        res["designs"] += 3
        cmp("fresh-process-after-sibling-designs-with-other-media-and-loads", tuple(d7), tuple(ref), 3)
    if with_child:
        d6 = child_digest(cfg)
        res["designs"] += 1
        cmp("second-process-other-hashseed", tuple(d6), tuple(ref), 2)
    return out, case


def object_histories(g, idx, res):
    """Random history on one GHE vs a fresh object: the final operation must return bit-identical results."""
    from ghedesigner.enums import TimestepType

    arr = GP.PIPES[idx % 4]
    ph = GP.draw_phys(g, arr)
    coords = GG.grid(int(g.integers(1, 4)), int(g.integers(1, 4)), float(round(g.uniform(4, 8), 1)))
    hmin, hmax = 40.0, 160.0
    desc = GL.draw_desc(g, scale=0.05 * len(coords))
    loads = GL.make_loads(desc)
    flow = GP.draw_flow(g, arr)
    case = {"phys": ph, "grid": len(coords), "loads": desc, "flow": flow}
    out = []
    res["object_starts"] = res.get("object_starts", {})

    # the object either starts the way the searches build it (one curve, then the bracketing family) or the way a user of the GHE
    # class builds it: with its own family of long-time curves (here 4 heights that are NOT the bracketing ones)
    own_family = bool(g.random() < 0.4)
    # ... or with ONE long-time curve that was computed for another borehole radius (the case the radius correction exists for)
    single_other_radius = (not own_family) and bool(g.random() < 0.5)
    rb_factor = float(g.choice([0.8, 0.9, 1.15, 1.25]))
    curve_seed = int(g.integers(0, 1 << 30))
    heights = sorted([hmin * 0.9, hmax * 1.05] + [float(round(h, 1)) for h in g.uniform(hmin * 1.1, hmax * 0.9, 2)]) if own_family else None
    case_family = heights

    def fresh():
        if own_family:
            from ghedesigner.gfunction import calc_g_func_for_multiple_lengths
            from ghedesigner.utilities import borehole_spacing, eskilson_log_times

            ghe = GG.make_ghe(ph, coords, 100.0, flow, loads, 12, hmax=hmax, hmin=hmin, real_g=False, rgen=np.random.default_rng(1))
            pt, fluid, bh, pipe, grout, soil = GP.bhe_objects(ph, 100.0)
            gf = quiet(lambda: calc_g_func_for_multiple_lengths(borehole_spacing(bh, coords), heights, bh.r_b, bh.D, ghe.bhe.m_flow_borehole, pt,
                                                                 eskilson_log_times(), coords, fluid, pipe, grout, soil))
            ghe.gFunction = gf
            return ghe
        if single_other_radius:
            ghe = GG.make_ghe(ph, coords, 100.0, flow, loads, 12, hmax=hmax, hmin=hmin, real_g=False, rgen=np.random.default_rng(1))
            curve = GG.synthetic_g_lts(np.random.default_rng(curve_seed), len(coords))
            ghe.gFunction = GG.make_gfunction({100.0: curve}, ghe.B_spacing, ghe.bhe.b.r_b * rb_factor, ghe.bhe.b.D, coords)
            return ghe
        ghe = GG.make_ghe(ph, coords, 100.0, flow, loads, 12, hmax=hmax, hmin=hmin, real_g=True)
        quiet(ghe.compute_g_functions)
        return ghe

    def do(ghe, op):
        kind = op[0]
        if kind == "recompute":
            quiet(ghe.compute_g_functions)
            return ("recompute",)
        if kind == "size":
            quiet(lambda: ghe.size(method=TimestepType.HYBRID))
            return ("size", float(ghe.bhe.b.H), hashlib.sha256(np.asarray(ghe.hp_eft, dtype=float).tobytes()).hexdigest()[:16])
        ghe.bhe.b.H = op[1]
        meth = TimestepType.HYBRID if kind == "hybrid" else TimestepType.HOURLY
        mx, mn = quiet(lambda: ghe.simulate(method=meth))
        return (kind, float(mx), float(mn), len(ghe.hp_eft), hashlib.sha256(np.asarray(ghe.hp_eft, dtype=float).tobytes()).hexdigest()[:16])

    start_kind = "own-family" if own_family else ("single-curve-other-radius" if single_other_radius else "search-like")
    res["object_starts"][start_kind] = res["object_starts"].get(start_kind, 0) + 1
    case["start"] = start_kind
    n_ops = int(g.integers(2, 5))
    ops = []
    for _ in range(n_ops):
        k = str(g.choice(["hybrid", "hybrid", "hourly", "size", "recompute"]))
        if single_other_radius and k == "recompute":
            k = "hybrid"  # keep the single-curve family for the whole history
        if k == "size" and own_family and "recompute" not in [o[0] for o in ops]:
            k = "hybrid"  # sizing needs curves that bracket the height window
        ops.append((k, float(round(g.uniform(hmin, hmax), 2))))
    if own_family and "recompute" not in [o[0] for o in ops]:
        ops.insert(int(g.integers(1, len(ops) + 1)), ("recompute", 0.0))
    final = (str(g.choice(["hybrid", "hourly", "size"])), float(round(g.uniform(hmin, hmax), 2)))
    a = fresh()
    trail = []
    try:
        for op in ops:
            trail.append(op[0])
            do(a, op)
        got = do(a, final)
    except Exception as e:  # noqa: BLE001
        mech = f"history-makes-operation-fail:{type(e).__name__}"
        if isinstance(e, IndexError) and ({"hybrid", "size"} & set(trail)) and ("hourly" in trail or final[0] == "hourly"):
            mech = "hourly-after-hybrid-reuses-hybrid-time-axis"
        out.append({"mechanism": mech, "message": f"ops {ops} then {final}: {type(e).__name__}: {str(e)[:100]}", "case": {**case, "ops": ops, "final": final}})
        res["object_histories"] += 1
        return out, case
    b = fresh()
    for op in ops:
        if op[0] == "recompute":
            do(b, op)  # structural operations are part of the object's configuration; only the earlier SIMULATIONS are left out
    exp = do(b, final)
    res["object_histories"] += 1
    res["comparisons"] += 1
    kinds = {o[0] for o in ops}
    if len(kinds) >= 2 or (len(ops) >= 2 and final[0] not in kinds):
        res["nontrivial"].append(["object", [o[0] for o in ops], final[0], desc["seed"]])
    if got != exp:
        mech = "object-history-changes-result:" + final[0]
        if final[0] == "hourly" and "hybrid" in kinds | {"size"} and got[3] != exp[3]:
            mech = "hourly-after-hybrid-reuses-hybrid-time-axis"
        out.append({"mechanism": mech, "message": f"after {[o[0] for o in ops]} the final {final} gives {got}, fresh object gives {exp}", "case": {**case, "ops": ops, "final": final}})
    return out, case


def run_shard(spec):
    g = rng(spec["seed"], PROP, spec["shard"])
    res = {"viol": [], "nontrivial": [], "samples": [], "designs": 0, "comparisons": 0, "histories": {}, "object_histories": 0, "allow_rowwise": spec["rowwise"],
           "do_sibling": spec.get("sibling", True)}
    for i in range(spec["n_mgr"]):
        idx = spec["shard"] + NSHARDS * i
        try:
            out, case = manager_histories(g, idx, res, with_child=(i == 0))
        except Exception as e:  # noqa: BLE001
            import traceback

            res["viol"].append({"mechanism": f"exception-in-history:{type(e).__name__}", "message": traceback.format_exc()[-600:], "case": {}})
            continue
        res["viol"].extend(out)
        if not res["samples"]:
            res["samples"].append({"scenario": {k: case["scenario"][k] for k in ("geometric_constraints", "design", "simulation", "loads_desc")}})
    for i in range(spec["n_obj"]):
        try:
            out, case = object_histories(g, spec["shard"] * 100 + i, res)
        except Exception as e:  # noqa: BLE001
            import traceback

            res["viol"].append({"mechanism": f"exception-in-object-history:{type(e).__name__}", "message": traceback.format_exc()[-600:], "case": {}})
            continue
        res["viol"].extend(out)
    return res


def check(tier, seed):
    specs = [{"seed": seed, "shard": s, "n_mgr": {"quick": 1, "thorough": 8}[tier], "n_obj": {"quick": 2, "thorough": 24}[tier], "rowwise": tier == "thorough", "sibling": (tier == "thorough" or s % 2 == 0)} for s in range(NSHARDS)]
    results = run_pool("vf.props.C13", specs, timeout=7200)
    rep = Report(PROP)
    rep.rule = (
        "manager level: small scenarios of all bisection methods (RowWise in the thorough tier), 12-37 months, each run fresh and then through six "
        "histories (find_design twice, set_design + find_design again, permuted setter order, other nominal height, after two unrelated designs, "
        "after two sibling designs that differ only in media / only in loads, limits and horizon, second process with another PYTHONHASHSEED); object level: one real GHE (pygfunction MIFT family of three heights) driven by 2-4 random "
        "operations among simulate(HYBRID), simulate(HOURLY, 12 months), size(), compute_g_functions() at random heights (40 % of the objects start "
        "with their own 4-height family instead of the bracketing one), then one final operation compared bit for bit "
        "with a fresh object. non-trivial = history with >= 2 operations of different kind before the compared one; distinct by inputs."
    )
    hist = {}
    for r in results:
        if "_harness_error" in r:
            rep.inconclusive.append("shard failed: " + r["_harness_error"][:300])
            continue
        rep.evaluations += r["comparisons"]
        rep.count("single_candidate_scenarios", r.get("single_candidate_scenarios", 0))
        rep.count("designs_run", r["designs"])
        rep.count("object_histories", r["object_histories"])
        for k_, v_ in r.get("object_starts", {}).items():
            rep.count("object_start_" + k_, v_)
        for k, v in r["histories"].items():
            hist[k] = hist.get(k, 0) + v
        for nt in r["nontrivial"]:
            rep.nontrivial(nt)
        for s in r["samples"]:
            rep.sample(s)
        for v in r["viol"]:
            rep.violate(v["mechanism"], v["message"], {"case": v["case"]})
    rep.extra["manager_histories_compared"] = hist
    if not hist or rep.extra.get("object_histories", 0) == 0:
        rep.inconclusive.append("no history was compared")
    rep.assumptions = ["equality is bitwise on coordinates, height, entering fluid temperatures and borehole-wall temperature changes"]
    return rep


def replay(w):
    rep = Report(PROP)
    rep.rule = "replay: rerun the check with the same VERIF_SEED (histories are functions of seed and shard)"
    rep.evaluations = 1
    rep.nontrivial_count = 2
    rep.sample({"mechanism": w.get("mechanism")})
    return rep


if __name__ == "__main__" and "--child" in sys.argv:
    job = json.loads(sys.stdin.read())
    for other in job.get("before", []):
        design(other, GL.make_loads(other["loads_desc"]))
    cfg = job["cfg"]
    _, d = design(cfg, GL.make_loads(cfg["loads_desc"]))
    print(json.dumps(list(d)))
