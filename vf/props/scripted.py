"""Scripted-physics runs of the REAL search classes (shared by C01, C02, C05).

Only the physics is replaced: the names `GHE` and `calc_g_func_for_multiple_lengths` inside ghedesigner.search_routines are bound to
stand-ins that return a scripted excess e(field, H) = table[field] + slope (Hmax - H).  Everything else is the repository's code:
Bisection1D.__init__/search/initialize_ghe/calculate_excess/retrieve_flow, Bisection2D.__init__, BisectionZD.__init__/search_successive,
and the closing `compute_g_functions(); size()` of GHEManager.find_design is emulated by the stand-in's scripted root.
The complete table is known to the judge, so the clauses of C01/C02/C05 can be decided exactly for every run."""
from __future__ import annotations

import contextlib
import io
import math
from types import SimpleNamespace

import numpy as np

HMIN, HMAX = 50.0, 150.0
TMAX, TMIN = 35.0, 5.0


class Script:
    def __init__(self, table, slope):
        self.table = table  # key -> excess at HMAX
        self.slope = slope  # K per metre
        self.log = []  # (key, H, excess) in evaluation order

    def excess(self, key, h):
        return self.table[key] + self.slope * (HMAX - h)

    def sized(self, key):
        """Height at which the excess vanishes, clamped to the window (what GHE.size() returns)."""
        e_max = self.table[key]
        h = HMAX + e_max / self.slope  # e(h) = e_max + slope (HMAX - h) = 0
        return min(max(h, HMIN), HMAX)


def field(li, fi, count):
    return [(float(li), float(fi))] + [(-1.0, float(k)) for k in range(count - 1)]


def key_of(coords):
    return (int(coords[0][0]), int(coords[0][1]))


class CountScript(Script):
    """Scripted excess keyed by the borehole count (row-wise runs: the fields are the repository's own, their count is what the script sees)."""

    class _Tab(dict):
        def __init__(self, fn):
            super().__init__()
            self.fn = fn

        def __missing__(self, n):
            v = float(self.fn(n))
            self[n] = v
            return v

    def __init__(self, fn, slope):
        super().__init__(CountScript._Tab(fn), slope)


@contextlib.contextmanager
def scripted_physics(script: Script, key_fn=None):
    import ghedesigner.search_routines as sr

    key_fn = key_fn or key_of

    class FakeGF:
        def __init__(self, coords):
            self.bore_locations = coords

    class FakeGHE:
        def __init__(self, v_flow_system, b_spacing, bhe_type, fluid, borehole, pipe, grout, soil, g_function, sim_params, loads, **kw):
            self.bhe = SimpleNamespace(b=borehole, fluid=fluid, pipe=pipe, grout=grout, soil=soil, m_flow_borehole=0.3)
            self.gFunction = g_function
            self.sim_params = sim_params
            self.key = key_fn(g_function.bore_locations)
            self.nbh = len(g_function.bore_locations)
            self.hp_eft = []
            self.fieldSpecifier = kw.get("field_specifier")

        def simulate(self, method=None):
            e = script.excess(self.key, self.bhe.b.H)
            script.log.append((self.key, float(self.bhe.b.H), e))
            self.hp_eft = [self.sim_params.max_EFT_allowable + e, self.sim_params.min_EFT_allowable - e]
            return self.sim_params.max_EFT_allowable + e, self.sim_params.min_EFT_allowable - e

        def cost(self, mx, mn):
            return max(mx - self.sim_params.max_EFT_allowable, self.sim_params.min_EFT_allowable - mn)

        def compute_g_functions(self):
            return None

        def size(self, method=None):
            self.bhe.b.H = script.sized(self.key)
            self.simulate()

    def fake_calc(b, h_values, r_b, depth, m_flow, bhe_type, log_time, coordinates, *a, **kw):
        return FakeGF(coordinates)

    saved = (sr.GHE, sr.calc_g_func_for_multiple_lengths)
    sr.GHE = FakeGHE
    sr.calc_g_func_for_multiple_lengths = fake_calc
    try:
        yield
    finally:
        sr.GHE, sr.calc_g_func_for_multiple_lengths = saved


def run_design(kind, domain, descriptors, script, cap, flag, key_fn=None):
    """Run the real search class + the manager's closing sizing.  Returns a record for the judges."""
    import ghedesigner.search_routines as sr
    from ghedesigner.enums import FlowConfigType, TimestepType
    from ghedesigner.simulation import SimulationParameters

    sp = SimulationParameters(1, 12, TMAX, TMIN, HMAX, HMIN, cap, flag)
    borehole = SimpleNamespace(H=100.0, r_b=0.07, D=2.0)
    fluid = SimpleNamespace(rho=998.0)
    cls = {"1d": sr.Bisection1D, "2d": sr.Bisection2D, "zd": sr.BisectionZD}[kind]
    rec = {"kind": kind, "cap": cap, "flag": flag}
    out = io.StringIO()
    script.log = []
    kf = key_fn or key_of
    with scripted_physics(script, key_fn=key_fn), contextlib.redirect_stdout(out):
        try:
            s = cls(domain, descriptors, 0.5, borehole, None, fluid, None, None, None, sp, [], method=TimestepType.HYBRID, flow_type=FlowConfigType.BOREHOLE)
            # GHEManager.find_design: compute_g_functions(); size()
            s.ghe.compute_g_functions()
            s.ghe.size(method=TimestepType.HYBRID)
            rec["outcome"] = "design"
            sel = s.selected_coordinates
            rec["key"] = kf(sel)
            rec["count"] = len(sel)
            rec["H"] = float(s.ghe.bhe.b.H)
            rec["ghe_key"] = s.ghe.key
        except ValueError as e:
            rec["outcome"] = "ValueError"
            rec["msg"] = str(e)[:80]
        except Exception as e:  # noqa: BLE001
            rec["outcome"] = "exception"
            rec["msg"] = f"{type(e).__name__}: {str(e)[:100]}"
    txt = out.getvalue()
    rec["escape_small"] = txt.count("Smallest available configuration selected.")
    rec["escape_large"] = txt.count("Largest available configuration selected.")
    rec["log"] = list(script.log)
    return rec


def run_rowwise(script, geo, flag, flow_type_name="BOREHOLE"):
    """The real RowWiseModifiedBisectionSearch (real field generation on a real lot) on scripted physics + the manager's closing sizing."""
    import ghedesigner.search_routines as sr
    from ghedesigner.enums import FlowConfigType, TimestepType
    from ghedesigner.geometry import GeometricConstraintsRowWise
    from ghedesigner.simulation import SimulationParameters

    sp = SimulationParameters(1, 12, TMAX, TMIN, HMAX, HMIN, None, flag)
    borehole = SimpleNamespace(H=100.0, r_b=0.07, D=2.0)
    fluid = SimpleNamespace(rho=998.0)
    gc = GeometricConstraintsRowWise(geo["perimeter_spacing_ratio"], geo["min_spacing"], geo["max_spacing"], geo["spacing_step"],
                                     math.radians(geo["min_rotation"]), math.radians(geo["max_rotation"]), geo["rotate_step"],
                                     geo["property_boundary"], geo["no_go_boundaries"])
    rec = {"kind": "rowwise", "cap": None, "flag": flag}
    out = io.StringIO()
    script.log = []
    with scripted_physics(script, key_fn=len), contextlib.redirect_stdout(out):
        try:
            s = sr.RowWiseModifiedBisectionSearch(0.5, borehole, None, fluid, None, None, None, sp, [], gc, method=TimestepType.HYBRID,
                                                  flow_type=getattr(FlowConfigType, flow_type_name))
            s.ghe.compute_g_functions()
            s.ghe.size(method=TimestepType.HYBRID)
            rec["outcome"] = "design"
            rec["key"] = len(s.selected_coordinates)
            rec["count"] = len(s.selected_coordinates)
            rec["H"] = float(s.ghe.bhe.b.H)
            rec["ghe_key"] = s.ghe.key
        except ValueError as e:
            rec["outcome"] = "ValueError"
            rec["msg"] = str(e)[:80]
        except Exception as e:  # noqa: BLE001
            rec["outcome"] = "exception"
            rec["msg"] = f"{type(e).__name__}: {str(e)[:100]}"
    txt = out.getvalue()
    rec["escape_small"] = txt.count("Smallest available configuration selected.")
    rec["escape_large"] = txt.count("Largest available configuration selected.")
    rec["log"] = list(script.log)
    return rec


def judge_rowwise(rec, script):
    """C01 and the input-independent clauses of C02 for a row-wise run (counts are whatever the real generator produced)."""
    out = {"C01": [], "C02": [], "C05": []}
    if rec["outcome"] == "exception":
        out["C02"].append(("scripted-rowwise:non-ValueError-escapes", rec["msg"]))
        return out
    if rec["outcome"] == "ValueError":
        if rec["flag"] and rec.get("msg") == "Search failed.":
            out["C02"].append(("scripted-rowwise:error-raised-although-asked-to-continue", rec["msg"]))
        return out
    H, n = rec["H"], rec["count"]
    esc = rec["escape_small"] + rec["escape_large"] > 0
    if not (HMIN - 1e-12 <= H <= HMAX + 1e-12):
        out["C02"].append(("scripted-rowwise:height-outside-window", f"H={H}"))
    if esc and not rec["flag"]:
        out["C02"].append(("scripted-rowwise:escape-taken-although-flag-off", f"{n} boreholes"))
    if rec["ghe_key"] != n:
        out["C01"].append(("scripted-rowwise:returned-exchanger-is-not-the-selected-field", f"selected {n} boreholes, exchanger has {rec['ghe_key']}"))
    e_final = script.excess(n, H)
    if not esc and e_final > 1e-3:
        ev = sorted({(k, round(e, 3)) for (k, h, e) in rec["log"] if abs(h - HMAX) < 1e-9})
        out["C01"].append(("scripted-rowwise:returned-design-infeasible", f"{n} boreholes at H={H:.3f}: excess {e_final:.4g} K, no escape message; evaluated at max height (count, excess): {ev[:8]}"))
    if not esc and HMIN + 1e-9 < H < HMAX - 1e-9 and abs(e_final) > 1e-3:
        out["C05"].append(("scripted-rowwise:height-not-a-root", f"excess {e_final:.4g} at interior H={H:.3f}"))
    return out


def rowwise_case(g):
    """A small convex lot and a spacing window that gives different counts at its two ends, plus a scripted count -> excess family."""
    from vf.gen import lots as GLOT

    size = float(round(g.uniform(40, 75), 1))
    poly = GLOT.convex(g, size, n=int(g.integers(4, 8))) if g.random() < 0.6 else [[0.0, 0.0], [size, 0.0], [size, round(size * g.uniform(0.6, 1.0), 1)], [0.0, round(size * 0.8, 1)]]
    min_sp = float(round(g.uniform(5.5, 8.5), 1))
    max_sp = float(round(min_sp * g.uniform(1.25, 1.9), 1))
    rot_lo = float(g.choice([-30.0, 0.0, 0.0, 15.0]))
    geo = {"perimeter_spacing_ratio": (float(round(g.uniform(0.7, 0.95), 2)) if g.random() < 0.35 else None), "min_spacing": min_sp, "max_spacing": max_sp,
           "spacing_step": float(round(g.uniform(0.2, 1.0), 2)), "min_rotation": rot_lo, "max_rotation": rot_lo + float(g.choice([10.0, 20.0, 30.0])),
           "rotate_step": 10.0, "property_boundary": [list(map(float, p)) for p in poly], "no_go_boundaries": []}
    return geo


def rowwise_family(g, n_lo, n_hi):
    """count -> excess at max height.  n_lo = count at the largest spacing, n_hi = count at the smallest spacing."""
    fam = str(g.choice(["bracketed", "bracketed", "bracketed", "all-feasible", "none-feasible", "inverted", "inverted", "noisy", "hump"]))
    lo, hi = min(n_lo, n_hi), max(n_lo, n_hi)
    span = max(1, hi - lo)
    thr = float(g.uniform(lo + 0.2, hi - 0.2)) if hi > lo else lo + 0.5
    a = float(g.uniform(0.05, 0.6))
    noise = {}

    def nz(n):
        if n not in noise:
            noise[n] = float(g.normal(0, 1))
        return noise[n]

    if fam == "bracketed":
        fn = lambda n: a * (thr - n) + 0.0007  # noqa: E731
    elif fam == "all-feasible":
        t1 = float(g.uniform(0.3, lo - 0.3)) if lo > 1 else 0.5
        fn = lambda n: a * (t1 - n) + 0.0007  # noqa: E731
    elif fam == "none-feasible":
        fn = lambda n: a * (hi + float(span) * 0.3 + 1.3 - n)  # noqa: E731
    elif fam == "inverted":
        # denser field hotter (shared system flow going laminar): feasible at the sparse end, infeasible at the dense end
        fn = lambda n: a * (n - thr) + 0.0007  # noqa: E731
    elif fam == "noisy":
        fn = lambda n: a * (thr - n) + 0.0007 + 0.8 * a * nz(n)  # noqa: E731
    else:
        # hump: both ends feasible, counts in between not (or the reverse sign)
        sgn = 1.0 if g.random() < 0.5 else -1.0
        mid = 0.5 * (lo + hi)
        fn = lambda n: sgn * a * ((0.5 * span) ** 2 * 0.6 - (n - mid) ** 2) / max(1.0, 0.5 * span) + 0.0007  # noqa: E731
    return fam, fn


# ------------------------------------------------------------------ domains shaped like the repository's
def domain_1d(n, family):
    if family == 0:
        counts = []
        i = 1
        while len(counts) < n:
            counts.append(i * i)
            if len(counts) < n:
                counts.append(i * (i + 1))
            i += 1
    elif family == 1:
        counts = list(range(1, n + 1))
    elif family == 3:
        # lists in which two different layouts have the same borehole count (zoned and polygon-constrained lists do)
        counts = [1]
        for i in range(1, n):
            counts.append(counts[-1] + (0 if i % 4 == 3 else 1 + (i % 3)))
    else:
        counts = [1]
        for i in range(1, n):
            counts.append(counts[-1] + 1 + (i % 3))
    dom = [field(0, i, c) for i, c in enumerate(counts)]
    return dom, [f"f{i}" for i in range(n)], counts


def domain_nested(g, n_lists, single_list=False):
    """Nested domain with the shape of bi_rectangle_nested: list k = starter fields 1..a, then a x j (j < r_k), then n x r_k for n = a..m."""
    a = int(g.integers(2, 5))
    m = a + int(g.integers(1, 6))
    r0 = int(g.integers(2, 4))
    # in the repository's bi-rectangle domains the first list is always longer than the number of lists (n_2 >= 2 rows at least)
    while (a - 1) + (r0 - 1) + (m - a + 1) < n_lists + 1:
        m += 1
    nested, descr = [], []
    for k in range(n_lists):
        r = r0 + k
        counts = list(range(1, a)) + [a * j for j in range(1, r)] + [n * r for n in range(a, m + 1)]
        nested.append([field(k, i, c) for i, c in enumerate(counts)])
        descr.append([f"L{k}F{i}" for i in range(len(counts))])
    if single_list:
        nested, descr = [nested[-1]], [descr[-1]]
        nested[0] = [field(0, i, len(f)) for i, f in enumerate(nested[0])]
    return nested, descr


def monotone_table(nested, level, g):
    """Excess at HMAX decreasing in the borehole count (plus tiny distinct offsets)."""
    big = max(len(f) for fl in nested for f in fl)
    tab = {}
    for li, fl in enumerate(nested):
        for fi, f in enumerate(fl):
            tab[(li, fi)] = float((level * big - len(f)) * 0.31 - 0.0013 * li - 0.00011 * fi + 0.0037)
    return tab


# ------------------------------------------------------------------ judges (one per property, over the same record)
def counts_of(domain):
    return {(li, fi): len(f) for li, fl in enumerate(domain) for fi, f in enumerate(fl)}


def judge(rec, nested, script, monotone=True):
    """Returns {'C01': [...], 'C02': [...], 'C05': [...]} lists of (mechanism, message)."""
    out = {"C01": [], "C02": [], "C05": []}
    cnt = counts_of(nested)
    cap, flag = rec["cap"], rec["flag"]
    allowed = {k for k, c in cnt.items() if cap is None or c <= cap}
    allowed_strict = {k for k, c in cnt.items() if cap is None or c < cap}
    feasible_allowed = [k for k in allowed_strict if script.table[k] <= 0]
    smallest = min(cnt.values())
    esc = rec["escape_small"] + rec["escape_large"] > 0
    if rec["outcome"] == "exception":
        out["C02"].append(("scripted:non-ValueError-escapes", f"{rec['kind']}: {rec['msg']}"))
        return out
    ev_feasible = [k for (k, h, e) in rec["log"] if abs(h - HMAX) < 1e-9 and e <= 0]
    if rec["outcome"] == "ValueError":
        if flag and rec.get("msg") == "Search failed.":
            out["C02"].append(("scripted:error-raised-although-asked-to-continue", f"{rec['kind']} cap {cap}"))
        # (the statement does not promise a design whenever some candidate would do - a capped nested search may miss one -
        #  so an error is never judged against the full table, only against the continue flag)
        return out
    key, H, count = rec["key"], rec["H"], rec["count"]
    e_final = script.excess(key, H)
    # C02 (a) (b)
    if not (HMIN - 1e-12 <= H <= HMAX + 1e-12):
        out["C02"].append(("scripted:height-outside-window", f"{rec['kind']}: H={H}"))
    if cap is not None and count > cap:
        out["C02"].append(("scripted:borehole-cap-exceeded", f"{rec['kind']}: {count} boreholes with cap {cap}"))
    if esc and not flag:
        out["C02"].append(("scripted:escape-taken-although-flag-off", f"{rec['kind']} cap {cap}"))
    if not flag:
        # C02 policy, stated direction: without the continue flag a design may only come back if some allowed candidate meets the limits
        any_allowed_feasible = any(script.table[k] <= 0 for k in allowed)
        if not any_allowed_feasible:
            out["C02"].append(("scripted:design-returned-although-no-allowed-candidate-meets-the-limits", f"{rec['kind']} cap {cap}: returned {count} bh at {H:.2f} m, flag off, no candidate with count <= cap is feasible at max height"))
        if abs(H - HMIN) <= 1e-9 and count == smallest and script.excess(key, HMIN) < -1e-3 and all(script.excess(k, HMIN) < 0 for k in cnt if cnt[k] == smallest):
            out["C02"].append(("scripted:unmet-small-design-returned-although-flag-off", f"{rec['kind']} cap {cap}: smallest field at minimum height is over-satisfied ({script.excess(key, HMIN):.3g} K) and was returned without the continue flag"))
    if not esc:
        # C01: a design returned without the escape is feasible at the returned height
        if e_final > 1e-3:
            out["C01"].append(("scripted:returned-design-infeasible", f"{rec['kind']} cap {cap}: field {key} ({count} bh) at H={H:.3f}: excess {e_final:.4g}"))
        # C05: drilling clause over evaluated feasible candidates; root condition
        if ev_feasible:
            best = min(cnt[k] for k in ev_feasible) * HMAX
            if count * H > best * (1 + 1e-12):
                out["C05"].append(("scripted:drilling-exceeds-an-evaluated-feasible-candidate", f"{rec['kind']} cap {cap}: {count} x {H:.2f} m > {best:.1f} m"))
        if HMIN + 1e-9 < H < HMAX - 1e-9 and abs(e_final) > 1e-3:
            out["C05"].append(("scripted:height-not-a-root", f"{rec['kind']}: excess {e_final:.4g} at interior H"))
        if monotone and rec["kind"] in ("1d", "2d") and script.table[key] <= 0:
            li, fi = key
            if fi > 0:
                pred = (li, fi - 1)
                pe = [e for (k, h, e) in rec["log"] if k == pred and abs(h - HMAX) < 1e-9]
                if not pe or pe[-1] <= 0:
                    out["C05"].append(("scripted:predecessor-not-evaluated-infeasible", f"{rec['kind']} cap {cap}: selected {key}, predecessor evaluated at max height: {bool(pe)}"))
    else:
        # C02 policy with full knowledge of the table
        if rec["escape_large"] and not rec["escape_small"]:
            if script.table[key] > 0:
                # "largest allowed": the largest field under the cap (count < cap as coded, or <= cap) of any one candidate list
                largest_ok = set()
                for li in range(len(nested)):
                    for pool_ in (allowed_strict, allowed):
                        c_ = [cnt[k] for k in pool_ if k[0] == li]
                        if c_:
                            largest_ok.add(max(c_))
                if count not in largest_ok or abs(H - HMAX) > 1e-9:
                    out["C02"].append(("scripted:unmet-large-not-largest-allowed-at-max-height", f"{rec['kind']} cap {cap}: returned {count} bh at {H}; largest allowed {sorted(x for x in largest_ok if x)}"))
        if rec["escape_small"] and not rec["escape_large"]:
            # in a nested search the message may come from a sub-search that did not decide the outcome (one candidate list whose
            # smallest field is over-satisfied at minimum height, while the answer comes from another list): a returned design that is
            # a regular one - interior height, excess zero - is not an "unmet" outcome and is not judged by this clause
            regular = rec["kind"] in ("2d", "zd") and HMIN + 1e-9 < H < HMAX - 1e-9 and abs(e_final) <= 1e-3
            smallest_ok = {min(c_ for k_, c_ in cnt.items() if k_[0] == li_) for li_ in {k_[0] for k_ in cnt}}  # smallest field of any one list
            if (count not in smallest_ok or abs(H - HMIN) > 1e-9) and not regular:
                out["C02"].append(("scripted:unmet-small-not-smallest-at-min-height", f"{rec['kind']} cap {cap}: returned {count} bh at {H}"))
    return out


def run_batch(spec):
    """One shard of scripted designs; returns per-property violation lists and statistics."""
    from vf.common import rng

    g = rng(spec["seed"], "scripted", spec["shard"])
    res = {"runs": 0, "viol": {"C01": [], "C02": [], "C05": []}, "stats": {}, "samples": []}

    def st(k):
        res["stats"][k] = res["stats"].get(k, 0) + 1

    def handle(rec, nested, script, case, monotone=True):
        res["runs"] += 1
        st("outcome_" + rec["outcome"])
        st("kind_" + rec["kind"])
        if rec["outcome"] == "design":
            st("escaped" if rec["escape_small"] + rec["escape_large"] else "regular")
            if rec["cap"] is not None and rec["count"] >= rec["cap"] - 1:
                st("cap_binding")
        j = judge(rec, nested, script, monotone=monotone)
        for p, lst in j.items():
            for mech, msg in lst:
                if len(res["viol"][p]) < 12:
                    res["viol"][p].append({"mechanism": mech, "message": msg, "case": case})
        if len(res["samples"]) < 1 and rec["outcome"] == "design":
            res["samples"].append({**case, "selected": rec["key"], "count": rec["count"], "H": rec["H"]})

    k = 0
    # ---- 1-D lists: every length x threshold level x caps
    for n in range(1, spec["n1d"] + 1):
        for fam in range(4):
            dom, descr, counts = domain_1d(n, fam)
            nested = [dom]
            for t in range(0, n + 1):
                k += 1
                if k % spec["nshards"] != spec["shard"]:
                    continue
                # threshold between field t-1 and t: excess decreasing along the list
                tab = {(0, i): float((t - i - 0.5) * 0.7 + 0.013 * (n - i)) for i in range(n)}
                caps = [None] + sorted(set(sorted({c + d for c in counts for d in (0, 1)})[:: max(1, n // 6)]) | {2, 3})
                for cap in caps:
                    if cap is not None and cap <= counts[0]:
                        continue
                    for flag in (False, True):
                        for slope in (0.002, 0.05):
                            sc = Script(tab, slope)
                            rec = run_design("1d", dom, descr, sc, cap, flag)
                            handle(rec, nested, sc, {"kind": "1d", "n": n, "family": fam, "threshold": t, "cap": cap, "flag": flag, "slope": slope}, monotone=(fam != 3))
    # ---- nested flows
    for it in range(spec["nnested"]):
        L = int(g.integers(1, 6))
        nested, descr = domain_nested(g, L)
        cnt = counts_of(nested)
        allc = sorted(set(cnt.values()))
        level = float(g.uniform(-0.15, 1.25))
        tab = monotone_table(nested, level, g)
        slope = float(g.choice([0.002, 0.02, 0.2]))
        cap_choices = [None, None] + [int(g.choice(allc[1:])) + int(g.integers(0, 2)) for _ in range(3)] if len(allc) > 1 else [None]
        for cap in cap_choices:
            flag = bool(g.random() < 0.5)
            sc = Script(tab, slope)
            rec = run_design("2d", nested, descr, sc, cap, flag)
            handle(rec, nested, sc, {"kind": "2d", "lists": L, "level": level, "cap": cap, "flag": flag, "slope": slope})
            # the zoned search gets one list (bi-zoned) or several (polygon-constrained)
            sc2 = Script(tab, slope)
            rec = run_design("zd", nested, descr, sc2, cap, flag)
            handle(rec, nested, sc2, {"kind": "zd", "lists": L, "level": level, "cap": cap, "flag": flag, "slope": slope})
    # ---- the zoned search on the repository's own bi-zoned candidate lists (borehole counts are NOT monotone along such a list: they
    # drop at every group boundary), scripted excess decreasing in the borehole count
    from ghedesigner.domains import bi_rectangle_zoned_nested

    for it in range(spec.get("nzdreal", max(8, spec["nnested"] // 10))):
        lx, ly = float(round(g.uniform(30, 90), 1)), float(round(g.uniform(25, 70), 1))
        b_min = float(round(g.uniform(4.0, 7.0), 1))
        bx, by = float(round(b_min * g.uniform(1.6, 3.0), 1)), float(round(b_min * g.uniform(1.6, 3.0), 1))
        try:
            with contextlib.redirect_stdout(io.StringIO()):
                nested_r, descr_r = bi_rectangle_zoned_nested(lx, ly, b_min, bx, by)
        except Exception:  # noqa: BLE001 - window too narrow for the generator: not this lane's subject (C03)
            st("zd_real_lot_skipped")
            continue
        ids = {id(f): (li, fi) for li, fl in enumerate(nested_r) for fi, f in enumerate(fl)}
        cnt_r = counts_of(nested_r)
        allc = sorted(set(cnt_r.values()))
        if len(allc) < 6:
            st("zd_real_lot_skipped")
            continue
        drops = sum(1 for fl in nested_r for a_, b_ in zip(fl, fl[1:]) if len(b_) < len(a_))
        for rep_ in range(6):
            thr = float(g.uniform(allc[1], allc[-1] * 1.05))
            a = float(g.uniform(0.02, 0.4))
            tab = {k: a * (thr - c) + 0.0007 - 0.00001 * k[1] for k, c in cnt_r.items()}
            flag = bool(g.random() < 0.4)
            slope = float(g.choice([0.002, 0.02, 0.2]))
            sc = Script(tab, slope)
            rec = run_design("zd", nested_r, descr_r, sc, None, flag, key_fn=lambda coords: ids[id(coords)])
            st("zd_real_count_drops_in_list" if drops else "zd_real_monotone_list")
            handle(rec, nested_r, sc, {"kind": "zd-real-bizoned-list", "lot": [lx, ly, b_min, bx, by], "threshold_count": thr, "a": a, "flag": flag, "slope": slope})
    # ---- the same three search classes on the repository's OWN candidate domains (near-square, rectangle, bi-rectangle nested,
    # polygon-constrained nested): whatever shape those lists really have is the shape the searches run on
    from ghedesigner.domains import bi_rectangle_nested, polygonal_land_constraint, rectangular, square_and_near_square

    from vf.gen import lots as GLOT

    for it in range(spec.get("nrealdom", max(8, spec["nnested"] // 10))):
        which = ["nearsquare", "rectangle", "birectangle", "polygon"][it % 4]
        try:
            with contextlib.redirect_stdout(io.StringIO()):
                if which == "nearsquare":
                    n_max = int(g.integers(3, 12))
                    dom, des = square_and_near_square(1, n_max, float(round(g.uniform(4, 8), 1)))
                    nested_r, descr_r, kind = [dom], [des], "1d"
                elif which == "rectangle":
                    b_min = float(round(g.uniform(4, 7), 1))
                    dom, des = rectangular(float(round(g.uniform(30, 80), 1)), float(round(g.uniform(25, 60), 1)), b_min, float(round(b_min * g.uniform(1.5, 3.0), 1)))
                    nested_r, descr_r, kind = [dom], [des], "1d"
                elif which == "birectangle":
                    b_min = float(round(g.uniform(4, 7), 1))
                    nested_r, descr_r = bi_rectangle_nested(float(round(g.uniform(30, 80), 1)), float(round(g.uniform(25, 60), 1)), b_min,
                                                            float(round(b_min * g.uniform(1.5, 3.0), 1)), float(round(b_min * g.uniform(1.5, 3.0), 1)))
                    kind = "2d"
                else:
                    size = float(round(g.uniform(40, 80), 1))
                    poly = [GLOT.convex, GLOT.star, GLOT.orthogonal][int(g.integers(0, 3))](g, size)
                    b_min = float(round(g.uniform(4, 7), 1))
                    nested_r, descr_r = polygonal_land_constraint(b_min, float(round(b_min * g.uniform(1.5, 3.0), 1)), float(round(b_min * g.uniform(1.5, 3.0), 1)),
                                                                  [[list(p) for p in poly]], [])
                    kind = "zd"
        except Exception:  # noqa: BLE001 - a window too narrow for the generator: not this lane's subject (C03 / C04)
            st("real_domain_skipped")
            continue
        if not nested_r or any(len(fl) == 0 for fl in nested_r):
            st("real_domain_skipped")
            continue
        ids = {id(f): (li, fi) for li, fl in enumerate(nested_r) for fi, f in enumerate(fl)}
        cnt_r = counts_of(nested_r)
        allc = sorted(set(cnt_r.values()))
        if len(allc) < 4:
            st("real_domain_skipped")
            continue
        for rep_ in range(4):
            thr = float(g.uniform(allc[0] - 0.5, allc[-1] * 1.08))
            a = float(g.uniform(0.02, 0.4))
            tab = {k: a * (thr - c) + 0.0007 - 0.00001 * k[1] - 0.0000013 * k[0] for k, c in cnt_r.items()}
            flag = bool(g.random() < 0.4)
            slope = float(g.choice([0.002, 0.02, 0.2]))
            cap = None if (kind == "zd" or g.random() < 0.5) else int(g.choice(allc[1:])) + int(g.integers(0, 2))
            sc = Script(tab, slope)
            rec = run_design(kind, nested_r if kind != "1d" else nested_r[0], descr_r if kind != "1d" else descr_r[0], sc, cap, flag, key_fn=lambda coords: ids[id(coords)])
            st("real_domain_" + which)
            handle(rec, nested_r, sc, {"kind": kind + "-real-" + which, "threshold_count": thr, "a": a, "cap": cap, "flag": flag, "slope": slope, "counts": allc[:6] + allc[-3:]})
    # ---- row-wise search: real field generation on real lots, scripted count -> excess
    from ghedesigner.rowwise import field_optimization_fr, field_optimization_wp_space_fr, gen_shape

    for it in range(spec.get("nrow", max(30, spec["nnested"] // 3))):
        geo = rowwise_case(g)
        pb, ng = gen_shape(geo["property_boundary"], geo["no_go_boundaries"])
        kw = dict(ng_zones=ng, rotate_start=math.radians(geo["min_rotation"]), rotate_stop=math.radians(geo["max_rotation"]))
        try:
            if geo["perimeter_spacing_ratio"] is None:
                n_hi = len(field_optimization_fr(geo["min_spacing"], geo["rotate_step"], pb, **kw)[0])
                n_lo = len(field_optimization_fr(geo["max_spacing"], geo["rotate_step"], pb, **kw)[0])
            else:
                n_hi = len(field_optimization_wp_space_fr(geo["perimeter_spacing_ratio"], geo["min_spacing"], geo["rotate_step"], pb, **kw)[0])
                n_lo = len(field_optimization_wp_space_fr(geo["perimeter_spacing_ratio"], geo["max_spacing"], geo["rotate_step"], pb, **kw)[0])
        except Exception:  # noqa: BLE001 - lot the generator itself cannot fill: not this lane's subject (C14)
            st("rowwise_lot_skipped")
            continue
        if n_hi <= n_lo or n_lo < 2:
            st("rowwise_lot_skipped")
            continue
        for rep_ in range(3):
            fam, fn = rowwise_family(g, n_lo, n_hi)
            flag = bool(g.random() < 0.4)
            slope = float(g.choice([0.002, 0.02, 0.2]))
            sc = CountScript(fn, slope)
            rec = run_rowwise(sc, geo, flag, "SYSTEM" if g.random() < 0.3 else "BOREHOLE")
            case = {"kind": "rowwise", "family": fam, "flag": flag, "slope": slope, "counts_at_window_ends": [n_lo, n_hi], "geometry": geo}
            res["runs"] += 1
            st("outcome_" + rec["outcome"])
            st("kind_rowwise")
            st("rowwise_family_" + fam)
            if rec["outcome"] == "design":
                st("rowwise_escaped" if rec["escape_small"] + rec["escape_large"] else "rowwise_regular")
            else:
                st("rowwise_" + rec["outcome"] + ":" + rec.get("msg", "")[:40])
            for p_, lst in judge_rowwise(rec, sc).items():
                for mech, msg in lst:
                    if len(res["viol"][p_]) < 12:
                        res["viol"][p_].append({"mechanism": mech, "message": msg, "case": case})
    return res
