"""C17 - input files written by the tool are schema-valid and round-trip through the command-line loading path.

Events : F1 = write_input_file of an API-built manager; verdict of validate_input_file(F1); the manager instance built by
         _run_manager_from_cli_worker(F1) (captured by a wrapper on GHEManager.__init__, with find_design / prepare_results /
         write_output_files replaced by recording no-ops); F2 written by that instance; for a sample the two designs.
Oracle : the harness's own per-section jsonschema validation of F1 (must accept, and the tool must agree), F2 == F1 byte for
         byte, equal design digests.
"""
from __future__ import annotations

import io
import json
import contextlib
import os
import shutil
import tempfile
import warnings
from pathlib import Path

import numpy as np

from vf.common import REPO, TMP, Report, rng
from vf.gen import config as GC
from vf.gen import loads as GL
from vf.pool import run_pool

PROP = "C17"
NSHARDS = 16

UPPER_FIELDS = {"fluid": "fluid_name", "pipe": "arrangement", "simulation": "timestep", "geometric_constraints": "method", "design": "flow_type"}
PIPE_SCHEMAS = {"SINGLEUTUBE": "pipe_single_double_u_tube", "DOUBLEUTUBESERIES": "pipe_single_double_u_tube",
                "DOUBLEUTUBEPARALLEL": "pipe_single_double_u_tube", "COAXIAL": "pipe_coaxial"}
GEO_SCHEMAS = {"BIRECTANGLE": "geometric_bi_rectangle", "BIRECTANGLECONSTRAINED": "geometric_bi_rectangle_constrained",
               "BIZONEDRECTANGLE": "geometric_bi_zoned_rectangle", "NEARSQUARE": "geometric_near_square", "RECTANGLE": "geometric_rectangle",
               "ROWWISE": "geometric_rowwise"}


def _schema(name):
    return json.loads((REPO / "ghedesigner" / "schemas" / f"{name}.schema.json").read_text())


def independent_validate(inst: dict):
    """Per-section validation against the repository's schema files; returns a list of (section, message)."""
    import jsonschema

    errs = []

    def chk(section, schema_name, obj):
        try:
            jsonschema.validate(instance=obj, schema=_schema(schema_name))
        except jsonschema.ValidationError as e:
            errs.append((section, e.message[:160]))

    chk("file", "file_structure", inst)
    secs = {}
    for sec in ("fluid", "grout", "soil", "pipe", "borehole", "simulation", "geometric_constraints", "design", "loads"):
        v = inst.get(sec)
        if not isinstance(v, dict):
            errs.append((sec, "section missing or not an object"))
            continue
        v = dict(v)
        f = UPPER_FIELDS.get(sec)
        if f and f in v:
            v[f] = str(v[f]).upper()
        secs[sec] = v
    for sec, name in (("fluid", "fluid"), ("grout", "grout"), ("soil", "soil"), ("borehole", "borehole"), ("simulation", "simulation"),
                      ("design", "design"), ("loads", "loads")):
        if sec in secs:
            if sec == "fluid" and "fluid_name" not in secs[sec]:
                errs.append((sec, "fluid_name missing"))
                continue
            if sec == "design" and "flow_type" not in secs[sec]:
                errs.append((sec, "flow_type missing"))
                continue
            chk(sec, name, secs[sec])
    if "pipe" in secs:
        arr = secs["pipe"].get("arrangement")
        if arr not in PIPE_SCHEMAS:
            errs.append(("pipe", f"unknown arrangement {arr}"))
        else:
            chk("pipe", PIPE_SCHEMAS[arr], secs["pipe"])
    if "geometric_constraints" in secs:
        meth = secs["geometric_constraints"].get("method")
        if meth not in GEO_SCHEMAS:
            errs.append(("geometric_constraints", f"unknown method {meth}"))
        else:
            chk("geometric_constraints", GEO_SCHEMAS[meth], secs["geometric_constraints"])
    return errs


class LoaderTap:
    """Captures the GHEManager built by the CLI worker and neutralises the expensive steps."""

    def __init__(self, run_design=False):
        import ghedesigner.manager as M

        self.M = M
        self.instances = []
        self.hits = {"GHEManager.__init__": 0, "find_design": 0, "write_output_files": 0}
        self._orig = (M.GHEManager.__init__, M.GHEManager.find_design, M.GHEManager.prepare_results, M.GHEManager.write_output_files)
        tap = self
        o_init, o_find, o_prep, o_write = self._orig

        def init(self_, *a_, **kw_):
            o_init(self_, *a_, **kw_)
            tap.hits["GHEManager.__init__"] += 1
            tap.instances.append(self_)

        def find_design(self_, *a_, **kw_):
            tap.hits["find_design"] += 1
            if run_design:
                return o_find(self_, *a_, **kw_)
            return 0

        def prepare_results(self_, *a, **kw):
            return None

        def write_output_files(self_, *a, **kw):
            tap.hits["write_output_files"] += 1
            return None

        M.GHEManager.__init__ = init
        M.GHEManager.find_design = find_design
        M.GHEManager.prepare_results = prepare_results
        M.GHEManager.write_output_files = write_output_files

    def uninstall(self):
        M = self.M
        M.GHEManager.__init__, M.GHEManager.find_design, M.GHEManager.prepare_results, M.GHEManager.write_output_files = self._orig


def config_state(mgr):
    """Everything the API configuration consists of, read back from a manager (nominal borehole height excluded: it is not an input)."""
    p = mgr._pipe
    sp = mgr._simulation_parameters
    gc = dict(mgr._geometric_constraints.__dict__)
    gc["type"] = str(gc.get("type"))
    return {
        "fluid": [mgr._fluid.fluid_type.name, mgr._fluid.concentration_percent, mgr._fluid.temperature],
        "grout": [mgr._grout.k, mgr._grout.rhoCp],
        "soil": [mgr._soil.k, mgr._soil.rhoCp, mgr._soil.ugt],
        "pipe_type": mgr.pipe_type.name,
        "pipe": [repr(p.pos), repr(p.r_in), repr(p.r_out), p.s, p.roughness, repr(p.k), p.rhoCp, p.n_pipes],
        "borehole": [mgr._borehole.D, mgr._borehole.r_b],
        "sim": [sp.start_month, sp.end_month, sp.max_EFT_allowable, sp.min_EFT_allowable, sp.max_height, sp.min_height, sp.max_boreholes, bool(sp.continue_if_design_unmet)],
        "loads_len": len(mgr._ground_loads),
        "loads_equal_marker": float(sum(mgr._ground_loads)),
        "geometry": {k: (repr(v) if isinstance(v, (list, tuple)) else v) for k, v in gc.items()},
        "design": [type(mgr._design).__name__, mgr._design.V_flow, mgr._design.flow_type.name],
    }


def design_digest(mgr):
    s = mgr._search
    coords = np.asarray(s.selected_coordinates, dtype=float)
    import hashlib

    h = hashlib.sha256()
    h.update(coords.tobytes())
    h.update(np.float64(s.ghe.bhe.b.H).tobytes())
    h.update(np.asarray(s.ghe.hp_eft, dtype=float).tobytes())
    return h.hexdigest()[:20], len(coords), float(s.ghe.bhe.b.H)


def run_case(g, idx, res, workdir, with_design):
    import ghedesigner.manager as M
    from ghedesigner.validate import validate_input_file

    method = GC.METHODS[idx % 6]
    pipe = ["SINGLEUTUBE", "DOUBLEUTUBEPARALLEL", "DOUBLEUTUBESERIES", "COAXIAL"][(idx // 6) % 4]
    cfg = GC.draw_config(g, method=method, pipe=pipe, cap_bh=64 if with_design else 144)
    if with_design:
        cfg["simulation"]["num_months"] = 12
        cfg["loads_desc"]["scale"] = 0.15
        cfg["geometric_constraints"]["min_height"] = 30.0
        cfg["geometric_constraints"]["max_height"] = 150.0
        cfg["design"]["continue_if_design_unmet"] = True
    else:
        # unusual but acceptable numbers: non-round rotations, tiny and large values
        if method == "ROWWISE":
            cfg["geometric_constraints"]["min_rotation"] = float(g.uniform(-90, 0))
            cfg["geometric_constraints"]["max_rotation"] = float(g.uniform(0, 90))
            cfg["geometric_constraints"]["rotate_step"] = float(g.uniform(0.3, 20))
        if g.random() < 0.4:
            cfg["design"]["max_boreholes"] = int(g.integers(2, 200))
        if g.random() < 0.4:
            cfg["design"]["continue_if_design_unmet"] = bool(g.random() < 0.7)
        if g.random() < 0.5:
            # design fluid temperature other than the API default of 20 degC
            cfg["fluid"]["temperature"] = float(g.choice([5.0, 10.0, 12.5, 30.0, 45.0, 20.000001]))
        if g.random() < 0.3:
            cfg["grout"]["rho_cp"] = float(g.choice([1.0, 3901000.0, 1e9, 2.5e6 + 1 / 3]))
            cfg["soil"]["undisturbed_temp"] = float(g.choice([-2.5, 0.0, 18.3, 1e-7, 33.333333333333336]))
    loads = GL.make_loads(cfg["loads_desc"])
    if g.random() < 0.2:
        loads = [float(round(x)) for x in loads]
    case = {k: v for k, v in cfg.items()}
    out = []

    def bad(mech, msg):
        out.append({"mechanism": mech, "message": msg, "case": case})

    # the constrained bi-rectangle API takes a single outline either bare ([[x, y], ...]) or as a one-element list of outlines: the
    # same configuration, so the same file; half of the eligible cases go through the bare form
    api_cfg = cfg
    bare = []
    if method == "BIRECTANGLECONSTRAINED" and g.random() < 0.6:
        geo_b = dict(cfg["geometric_constraints"])
        for key in ("property_boundary", "no_go_boundaries"):
            if len(geo_b[key]) == 1 and g.random() < 0.75:
                geo_b[key] = geo_b[key][0]
                bare.append(key)
        if bare:
            api_cfg = dict(cfg, geometric_constraints=geo_b)
    case["api_bare_outlines"] = bare
    nominal = float(g.uniform(40, 200))
    with warnings.catch_warnings():
        warnings.simplefilter("ignore")
        m1 = GC.build_manager(api_cfg, loads=loads, nominal_height=nominal)
        f1 = Path(workdir) / f"in_{idx}_1.json"
        f2 = Path(workdir) / f"in_{idx}_2.json"
        m1.write_input_file(f1)
        text1 = f1.read_text()
        if bare:
            res["bare_outline_cases"] = res.get("bare_outline_cases", 0) + 1
            f0 = Path(workdir) / f"in_{idx}_0.json"
            GC.build_manager(cfg, loads=loads, nominal_height=nominal).write_input_file(f0)
            text0 = f0.read_text()
            f0.unlink()
            if text0 != text1:
                d0, d1_ = json.loads(text0)["geometric_constraints"], json.loads(text1)["geometric_constraints"]
                ks = [k for k in d0 if d0[k] != d1_.get(k)]
                bad("bare-outline-form-written-differently:" + (ks[0] if ks else "other"), f"{method}/{pipe}: {bare} given as bare outlines; differing keys {ks}")
        inst = json.loads(text1)
        errs = independent_validate(json.loads(text1))
        sink = io.StringIO()
        with contextlib.redirect_stderr(sink), contextlib.redirect_stdout(sink):
            tool_errs = validate_input_file(f1)
        if errs:
            sec, msg = errs[0]
            mech = f"written-file-violates-schema:{sec}"
            if sec == "geometric_constraints" and method == "ROWWISE" and cfg["geometric_constraints"].get("perimeter_spacing_ratio") is None and "None is not of type" in msg:
                mech = "rowwise-null-perimeter-spacing-ratio-rejected-by-own-schema"
            bad(mech, f"{method}/{pipe}: {errs[:2]}")
        if (tool_errs != 0) != bool(errs):
            bad("tool-validator-disagrees-with-schemas", f"tool counted {tool_errs} errors, independent validation found {errs[:2]}")
        res["validated"] += 1
        if errs or tool_errs:
            return out, case  # the loader refuses the file; round trip not reachable
        tap = LoaderTap(run_design=with_design)
        try:
            with contextlib.redirect_stderr(sink), contextlib.redirect_stdout(sink):
                rc = M._run_manager_from_cli_worker(f1, Path(workdir) / f"out_{idx}")
        except Exception as e:  # noqa: BLE001
            tap.uninstall()
            bad(f"loader-raised:{type(e).__name__}", str(e)[:200])
            return out, case
        finally:
            pass
        hits = dict(tap.hits)
        insts = list(tap.instances)
        tap.uninstall()
        for k2, v2 in hits.items():
            res["hits"][k2] = res["hits"].get(k2, 0) + v2
        if rc != 0 or len(insts) != 1:
            bad("loader-did-not-build-one-manager", f"return code {rc}, {len(insts)} managers")
            return out, case
        m2 = insts[0]
        st1, st2 = config_state(m1), config_state(m2)
        res["configs_compared"] = res.get("configs_compared", 0) + 1
        # rotations are written in degrees and held in radians: deg -> rad -> deg -> rad may move the last bit (one ulp), which is
        # rounding of the unit conversion, not a different configuration
        # (compared with a relative tolerance of 4 ulp; an earlier version rounded both to 14 digits, which flagged a pair that straddled
        #  a rounding boundary: ...101 vs ...102 - thorough tier, notes/findings_log.md)
        for kk in ("min_rotation", "max_rotation"):
            a_, b_ = st1["geometry"].get(kk), st2["geometry"].get(kk)
            if isinstance(a_, float) and isinstance(b_, float) and abs(a_ - b_) <= 9e-16 * max(abs(a_), abs(b_)):
                st2["geometry"][kk] = a_
        if st1 != st2:
            diffs = [f"{k}: {str(st1[k])[:60]} -> {str(st2[k])[:60]}" for k in st1 if st1[k] != st2[k]]
            bad("loaded-configuration-differs-from-api-configuration:" + [k for k in st1 if st1[k] != st2[k]][0], f"{method}/{pipe}: " + "; ".join(diffs[:3]))
        m2.write_input_file(f2)
        text2 = f2.read_text()
        res["round_trips"] += 1
        if text2 != text1:
            d1, d2 = json.loads(text1), json.loads(text2)
            diffs = []
            for sec in d1:
                if d1[sec] != d2.get(sec):
                    if isinstance(d1[sec], dict):
                        for k2 in set(d1[sec]) | set(d2.get(sec, {})):
                            if d1[sec].get(k2) != d2.get(sec, {}).get(k2):
                                a, b = d1[sec].get(k2), d2.get(sec, {}).get(k2)
                                diffs.append(f"{sec}.{k2}: {str(a)[:40]} -> {str(b)[:40]}")
                    else:
                        diffs.append(sec)
            sec0 = diffs[0].split(":")[0] if diffs else "formatting"
            bad(f"round-trip-changes:{sec0.split('.')[0]}", f"{method}/{pipe}: " + "; ".join(diffs[:4]))
        if with_design:
            sinkd = io.StringIO()
            with contextlib.redirect_stdout(sinkd), contextlib.redirect_stderr(sinkd):
                try:
                    m1.find_design()
                    dg1 = design_digest(m1)
                except ValueError as e:
                    dg1 = ("ValueError", str(e)[:60])
                try:
                    dg2 = design_digest(m2) if m2._search is not None else ("no-search",)
                except Exception as e:  # noqa: BLE001
                    dg2 = (type(e).__name__, str(e)[:60])
            res["design_pairs"] += 1
            if dg1 != dg2:
                bad("design-from-file-differs-from-api-design", f"{method}/{pipe}: api {dg1} vs file {dg2}")
    for p in (f1, f2):
        try:
            p.unlink()
        except OSError:
            pass
    return out, case


def run_shard(spec):
    g = rng(spec["seed"], PROP, spec["shard"])
    workdir = tempfile.mkdtemp(prefix="c17_", dir=str(TMP))
    res = {"cases": 0, "viol": [], "nontrivial": [], "samples": [], "validated": 0, "round_trips": 0, "design_pairs": 0, "hits": {}, "methods": {}}
    try:
        for i in range(spec["n"]):
            idx = spec["shard"] * spec["n"] + i
            with_design = i < spec["designs"]
            try:
                out, case = run_case(g, idx, res, workdir, with_design)
            except Exception as e:  # noqa: BLE001
                import traceback

                res["viol"].append({"mechanism": f"exception:{type(e).__name__}", "message": traceback.format_exc()[-700:], "case": {}})
                continue
            res["cases"] += 1
            key = case["geometric_constraints"]["method"] + "/" + case["pipe"]["arrangement"]
            res["methods"][key] = res["methods"].get(key, 0) + 1
            res["nontrivial"].append([key, case["fluid"]["fluid_name"], case["design"].get("max_boreholes"), case["design"].get("continue_if_design_unmet"), case["loads_desc"]["seed"]])
            res["viol"].extend(out)
            if not res["samples"]:
                c = dict(case)
                res["samples"].append(c)
    finally:
        shutil.rmtree(workdir, ignore_errors=True)
    return res


def check(tier, seed):
    n = {"quick": 192, "thorough": 2400}[tier]
    designs = {"quick": 1, "thorough": 4}[tier]
    specs = [{"seed": seed, "shard": s, "n": n // NSHARDS, "designs": designs} for s in range(NSHARDS)]
    results = run_pool("vf.props.C17", specs, timeout=5400)
    rep = Report(PROP)
    rep.rule = (
        "case = configuration accepted by the API: 6 design methods (RowWise with and without perimeter ratio) x 4 pipe types in rotation, five "
        "fluids with concentrations, single outlines of the constrained bi-rectangle given bare or as one-element lists, optional max_boreholes / continue flag, non-round rotations, tiny and large values, generated 8760-h loads; "
        "write -> independent per-section schema validation + tool validator -> CLI loader (instance captured) -> state of the loaded manager compared "
        "with the API-built one (all media, pipe, borehole, simulation parameters incl. cap and continue flag, geometry, design) -> write again -> byte comparison; "
        "the first case(s) of every shard also run both designs and compare digests. non-trivial = every case; distinct by inputs."
    )
    hits = {}
    combos = {}
    for r in results:
        if "_harness_error" in r:
            rep.inconclusive.append("shard failed: " + r["_harness_error"][:300])
            continue
        rep.evaluations += r["cases"]
        for k2 in ("validated", "round_trips", "design_pairs"):
            rep.count(k2, r[k2])
        rep.count("api_vs_loaded_configurations_compared", r.get("configs_compared", 0))
        rep.count("bare_outline_api_form_cases", r.get("bare_outline_cases", 0))
        for k2, v2 in r["hits"].items():
            hits[k2] = hits.get(k2, 0) + v2
        for k2, v2 in r["methods"].items():
            combos[k2] = combos.get(k2, 0) + v2
        for nt in r["nontrivial"]:
            rep.nontrivial(nt)
        for s in r["samples"]:
            rep.sample(s)
        for v in r["viol"]:
            rep.violate(v["mechanism"], v["message"], {"case": v["case"]})
    rep.extra["monitor_hits"] = hits
    rep.extra["method_pipe_combinations_seen"] = len(combos)
    if hits.get("GHEManager.__init__", 0) == 0:
        rep.inconclusive.append("loader instance never captured")
    if rep.extra.get("design_pairs", 0) == 0:
        rep.inconclusive.append("no design pair compared")
    rep.assumptions = ["the five documented case-insensitive names are upper-cased before validation, exactly as the tool documents",
                       "design equality = bit-equal coordinates, height and temperatures"]
    return rep


def replay(w):
    rep = Report(PROP)
    rep.rule = "replay not supported for C17 witnesses (cases are regenerated from seed/shard); rerun with the same VERIF_SEED"
    rep.evaluations = 1
    rep.nontrivial_count = 2
    rep.sample({"mechanism": w.get("mechanism")})
    return rep
