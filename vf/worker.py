"""Child process: python -m vf.worker <module> <outfile>; spec JSON on stdin."""
import importlib
import json
import sys
import traceback


def main():
    modname, out = sys.argv[1], sys.argv[2]
    spec = json.loads(sys.stdin.read())
    from vf.common import REPO, jdump

    try:
        import ghedesigner

        if not str(ghedesigner.__file__).startswith(str(REPO)):
            res = {"_harness_error": f"ghedesigner imported from {ghedesigner.__file__}, not from {REPO}"}
        else:
            mod = importlib.import_module(modname)
            res = mod.run_shard(spec)
    except BaseException as e:  # noqa: BLE001 - report everything to the parent
        res = {"_harness_error": f"{type(e).__name__}: {e}", "_traceback": traceback.format_exc()[-3000:]}
    with open(out, "w") as f:
        f.write(jdump(res))


if __name__ == "__main__":
    main()
