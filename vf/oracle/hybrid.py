"""Independent re-derivation of what a hybrid load sequence must look like (C06, C07, C08).

Everything is recomputed from the raw 8760 W list, the non-leap calendar and the 30-point short-time curve; nothing is
read from the HybridLoad object except the things being judged (load/hour sequences, reported durations/days)."""
from __future__ import annotations

import math

import numpy as np

from vf.gen.loads import MONTH_DAYS, MONTH_HOURS, MONTH_START, monthly_stats


def month_end_hours(n_months):
    ends = []
    t = 0
    for m in range(n_months):
        t += MONTH_HOURS[m % 12]
        ends.append(t)
    return ends


def split_months(hour, n_months):
    """Indices k_m such that hour[k_m] is the month-end breakpoint of month m (scan forward).  None if missing."""
    ends = month_end_hours(n_months)
    idx = []
    k = 1
    n = len(hour)
    for E in ends:
        j = k + 1
        found = None
        while j < n:
            if hour[j] == E:
                found = j
                break
            j += 1
        if found is None:
            return None, ends
        idx.append(found)
        k = found
    return idx, ends


def two_day_window(series_kw, month, day):
    """48 hourly values: the day before the peak day and the peak day (wrapping 1 Jan to 31 Dec)."""
    start = MONTH_START[month] + (day - 1) * 24
    if start < 0:
        return series_kw[start:] + series_kw[: start + 48]
    return series_kw[start : start + 48]


def duration_candidates(two_day, month_peak, month_avg, lntts, gvals, ts, k_soil, rb):
    """Cullin-Spitler peak duration(s) in hours.  Returns (list_of_acceptable_durations, nominal_max)."""
    cands = []
    mx = max([0.0] + list(two_day))
    peaks = {month_peak}
    if abs(month_peak - mx) >= 0.1 * 0.999999:  # the window holds a larger load (previous month): either scaling accepted
        peaks.add(mx)
    if abs(abs(month_peak - mx) - 0.1) < 1e-9:
        peaks.add(mx)
        peaks.add(month_peak)
    nominal_maxes = []
    for pk in peaks:
        if pk == 0.0:
            continue
        L = [0.0] + list(two_day)
        hours = np.arange(49, dtype=float)
        q_peak = np.array([0.0] + [pk - month_avg] * 48)
        q_nom = np.array([0.0] + [(L[i] - month_avg) / pk * L[i] for i in range(1, 49)])

        def response(q):
            dq = q[1:] - q[:-1]
            out = [0.0]
            for n in range(1, 49):
                tt = hours[n] - hours[0:n]
                x = np.log(tt * 3600.0 / ts)
                gv = np.interp(x, lntts, gvals)
                out.append(float((dq[0:n] / (2 * math.pi * k_soil)).dot(gv) + q[n] * rb))
            return np.array(out)

        r_pk = response(q_peak)
        r_nm = response(q_nom)
        target = float(r_nm.max())
        nominal_maxes.append(target)
        if abs(pk - month_avg) <= 1e-9 * max(abs(pk), 1e-30):
            # the month's peak equals its average (constant month): the constant load "peak minus average" is zero, its response is
            # flat and the defining time does not exist - only the bounds clause can be judged
            cands.append(float("inf"))
        elif target > 0.0:
            cands.append(_interp_extrap(target, r_pk, hours))
        else:
            cands.append(None)  # any tiny positive duration accepted
    return cands, nominal_maxes


def _interp_extrap(x, xs, ys):
    """Linear interpolation of ys over xs (sorted ascending by xs as scipy does) with linear extrapolation."""
    order = np.argsort(xs, kind="mergesort")
    xs = np.asarray(xs)[order]
    ys = np.asarray(ys)[order]
    if x <= xs[0]:
        i = 0
    elif x >= xs[-1]:
        i = len(xs) - 2
    else:
        i = int(np.searchsorted(xs, x, side="right") - 1)
        i = min(max(i, 0), len(xs) - 2)
    x0, x1 = xs[i], xs[i + 1]
    if x1 == x0:
        return float(ys[i])
    return float(ys[i] + (ys[i + 1] - ys[i]) * (x - x0) / (x1 - x0))


def retained(m_index, n_months):
    """1-based month index is a peak-retention month (first / last twelve months of the horizon)."""
    return m_index < 1 + 12 or m_index > n_months - 12


def expected_months(loads):
    return monthly_stats(loads)
