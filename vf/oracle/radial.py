"""Independent implicit finite-volume solver of the layered radial conduction problem behind the short-time g-function.

Own assembly (cell-centred, logarithmic resistances between centres), own mesh (cells_per_layer x finer), own time step,
scipy banded solver.  Inputs are the physical layer data only: radii, conductivities, volumetric heat capacities."""
from __future__ import annotations

import math

import numpy as np
from scipy.linalg import solve_banded


def layer_data(rn, bhe_eq):
    """Layer description derived from the borehole object (not from the tool's cell table)."""
    r_b = bhe_eq.b.r_b
    r_out_tube = math.sqrt(2.0) * bhe_eq.pipe.r_out
    t_wall = bhe_eq.pipe.r_out - bhe_eq.pipe.r_in
    r_in_tube = r_out_tube - t_wall
    r_conv = r_in_tube - t_wall / 4.0
    r_fluid = r_conv - 3.0 * t_wall / 4.0
    rb_eff = bhe_eq.calc_effective_borehole_resistance()
    r_f_eff = bhe_eq.R_f / 2.0
    r_pg = rb_eff - r_f_eff
    k_conv = math.log(r_in_tube / r_conv) / (2 * math.pi * r_f_eff)
    k_pg = math.log(r_b / r_in_tube) / (2 * math.pi * r_pg)
    rho_cp_fluid_eq = 2.0 * bhe_eq.pipe.r_in ** 2 * bhe_eq.fluid.rhoCp / (r_conv ** 2 - r_fluid ** 2)
    layers = [
        ("fluid", r_fluid, r_conv, 200.0, rho_cp_fluid_eq, 3),
        ("conv", r_conv, r_in_tube, k_conv, 1.0, 1),
        ("pipe", r_in_tube, r_out_tube, k_pg, bhe_eq.pipe.rhoCp, 4),
        ("grout", r_out_tube, r_b, k_pg, bhe_eq.grout.rhoCp, 27),
        ("soil", r_b, 10.0, bhe_eq.soil.k, bhe_eq.soil.rhoCp, 500),
    ]
    return layers, rb_eff


def solve_reference(layers, rb_eff, k_soil, t_end, dt=30.0, refine=3, q=1.0):
    """Returns (g_end, T_core_end, stored_energy, boundary_loss) after heating the core with q W/m for t_end seconds."""
    r_in, r_out, k, c = [], [], [], []
    for _, a, b, kk, rc, n in layers:
        n2 = n * refine
        edges = np.linspace(a, b, n2 + 1)
        r_in.extend(edges[:-1])
        r_out.extend(edges[1:])
        k.extend([kk] * n2)
        c.extend([rc] * n2)
    r_in = np.array(r_in)
    r_out = np.array(r_out)
    k = np.array(k)
    rc = np.array(c)
    r_c = 0.5 * (r_in + r_out)
    vol = math.pi * (r_out ** 2 - r_in ** 2)
    cap = rc * vol
    n = len(r_c)
    # conductance between neighbouring centres
    res = np.log(r_out[:-1] / r_c[:-1]) / (2 * math.pi * k[:-1]) + np.log(r_c[1:] / r_in[1:]) / (2 * math.pi * k[1:])
    cond = 1.0 / res
    nsteps = int(round(t_end / dt))
    dt = t_end / nsteps
    ab = np.zeros((3, n))
    diag = cap / dt
    diag[:-1] += cond
    diag[1:] += cond
    ab[1, :] = diag
    ab[0, 1:] = -cond
    ab[2, :-1] = -cond
    # Dirichlet far field on the last cell
    ab[1, -1] = 1.0
    ab[2, -2] = 0.0
    T = np.zeros(n)
    loss = 0.0
    for _ in range(nsteps):
        rhs = cap / dt * T
        rhs[0] += q
        rhs[-1] = 0.0
        T = solve_banded((1, 1), ab, rhs)
        loss += cond[-1] * (T[-2] - T[-1]) * dt
    stored = float(np.dot(cap[:-1], T[:-1]))
    g_end = 2 * math.pi * k_soil * (T[0] / q - rb_eff)
    return float(g_end), float(T[0]), stored, float(loss)
