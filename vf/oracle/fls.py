"""Analytical finite-line-source g-function (uniform heat rate on every borehole), independent of pygfunction.

h_ij(t) = 1/(2H) * int_{1/sqrt(4 alpha t)}^{inf} exp(-d^2 s^2)/s^2 * I(s) ds  (Claesson & Javed 2011; Cimmino & Bernier 2014)
I(s)   = 2 ierf(Hs) + 2 ierf((2D+H)s) - ierf(2Ds) - ierf((2D+2H)s),  ierf(x) = x erf(x) - (1 - exp(-x^2))/sqrt(pi)
g(t)   = (1/N) sum_i sum_j h_ij(t)   (d_ii = r_b)
Quadrature: Gauss-Legendre in u = ln s on [ln a, ln(s_max)], vectorised over the unique pair distances.
"""
from __future__ import annotations

import math

import numpy as np
from scipy.special import erf

_SQPI = math.sqrt(math.pi)


def ierf(x):
    return x * erf(x) - (1.0 - np.exp(-x * x)) / _SQPI


def _kernel(s, H, D):
    return 2 * ierf(H * s) + 2 * ierf((2 * D + H) * s) - ierf(2 * D * s) - ierf((2 * D + 2 * H) * s)


_GL_CACHE = {}


def _gl(n):
    if n not in _GL_CACHE:
        _GL_CACHE[n] = np.polynomial.legendre.leggauss(n)
    return _GL_CACHE[n]


def h_values(dists, t, alpha, H, D, nodes=600):
    """h(d, t) for an array of distances at one time (vectorised)."""
    dists = np.asarray(dists, dtype=float)
    a = 1.0 / math.sqrt(4.0 * alpha * t)
    out = np.zeros_like(dists)
    s_max = 7.0 / dists  # exp(-49) ~ 5e-22
    act = s_max > a
    if not np.any(act):
        return out
    x, w = _gl(nodes)
    lo = math.log(a)
    hi = np.log(s_max[act])
    # nodes per distance: u = lo + (hi-lo)(x+1)/2
    half = 0.5 * (hi - lo)[:, None]
    u = lo + half * (x[None, :] + 1.0)
    s = np.exp(u)
    d = dists[act][:, None]
    integrand = np.exp(-d * d * s * s) * _kernel(s, H, D) / s  # (1/s^2) * s from ds = s du
    out[act] = (integrand * w[None, :]).sum(axis=1) * half[:, 0] / (2.0 * H)
    return out


def g_function(coords, H, D, r_b, alpha, times):
    """UHTR g-function of a field of identical vertical boreholes at the given times (seconds)."""
    xy = np.asarray(coords, dtype=float)
    n = len(xy)
    dx = xy[:, None, 0] - xy[None, :, 0]
    dy = xy[:, None, 1] - xy[None, :, 1]
    dist = np.sqrt(dx * dx + dy * dy)
    dist[np.arange(n), np.arange(n)] = r_b
    # group equal distances (rounded to 1e-9 m)
    key = np.round(dist.ravel(), 9)
    uniq, counts = np.unique(key, return_counts=True)
    g = []
    for t in times:
        h = h_values(uniq, t, alpha, H, D)
        g.append(float(np.dot(h, counts)) / n)
    return np.array(g)


def h_quad(d, t, alpha, H, D):
    """Reference evaluation of one h(d,t) with adaptive quadrature (self-check of the vectorised rule)."""
    from scipy.integrate import quad

    a = 1.0 / math.sqrt(4.0 * alpha * t)

    def f(s):
        return math.exp(-d * d * s * s) / (s * s) * float(_kernel(np.float64(s), H, D))

    pts = sorted({p for p in (1.0 / H, 1.0 / max(D, 1e-3), 1.0 / d, 3.0 / d) if p > a})
    val, err = quad(f, a, max(a * 1.0001, 8.0 / d), points=pts or None, limit=400, epsabs=1e-13, epsrel=1e-12)
    return val / (2.0 * H)
