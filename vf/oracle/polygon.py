"""Exact point/polygon oracles (rational arithmetic on the float inputs).  Independent of ghedesigner."""
from __future__ import annotations

from decimal import Decimal, getcontext
from fractions import Fraction as F

getcontext().prec = 50


def _num(v):
    # ints are already exact; everything else goes through Fraction (exact value of the float)
    return v if type(v) is int else F(v)


def _fr(p):
    return (_num(p[0]), _num(p[1]))


def on_segment_exact(a, b, p) -> bool:
    a, b, p = _fr(a), _fr(b), _fr(p)
    cross = (b[0] - a[0]) * (p[1] - a[1]) - (b[1] - a[1]) * (p[0] - a[0])
    if cross != 0:
        return False
    return min(a[0], b[0]) <= p[0] <= max(a[0], b[0]) and min(a[1], b[1]) <= p[1] <= max(a[1], b[1])


def _dist_dec(a, b) -> Decimal:
    dx = Decimal(a[0]) - Decimal(b[0])
    dy = Decimal(a[1]) - Decimal(b[1])
    return (dx * dx + dy * dy).sqrt()


def edge_excess(a, b, p) -> Decimal:
    """|pa| + |pb| - |ab| in 50-digit arithmetic (the tool's documented on-edge measure)."""
    return _dist_dec(a, p) + _dist_dec(b, p) - _dist_dec(a, b)


def min_edge_excess(poly, p) -> Decimal:
    n = len(poly)
    return min(edge_excess(poly[i - 1], poly[i], p) for i in range(n))


def crossing_inside_exact(poly, p) -> bool:
    """Crossing number (ray to +x, half-open rule) in exact arithmetic.  Caller guarantees p is not on the boundary."""
    px, py = _fr(p)
    inside = False
    n = len(poly)
    for i in range(n):
        ax, ay = _fr(poly[i - 1])
        bx, by = _fr(poly[i])
        if (ay > py) != (by > py):
            # x coordinate of the edge at height py is right of px  <=>  sign test without division
            lhs = (ax - px) * (by - ay) + (py - ay) * (bx - ax)
            if (lhs > 0) == (by - ay > 0) and lhs != 0:
                inside = not inside
    return inside


def classify(poly, p, tol, guard=(0.5, 2.0)):
    """Expected result of point_polygon_check: 1 inside, 0 on edge, -1 outside; None if within the guard band of tol."""
    poly = [tuple(v) for v in poly]
    if len(poly) > 1 and poly[0] == poly[-1]:
        # a repeated closing vertex only adds a zero-length edge; drop for the crossing count
        core = poly[:-1]
    else:
        core = poly
    ex = min_edge_excess(poly, p)
    t = Decimal(tol)
    exact_on = any(on_segment_exact(core[i - 1], core[i], p) for i in range(len(core)))
    if exact_on:
        return 0
    if Decimal(guard[0]) * t <= abs(ex) <= Decimal(guard[1]) * t:
        return None
    if abs(ex) < t:
        return 0
    return 1 if crossing_inside_exact(core, p) else -1


def seg_dist(a, b, p) -> float:
    """Euclidean distance from p to segment ab (floats; used only for 'clearly inside' margins)."""
    ax, ay = a
    bx, by = b
    px, py = p
    dx, dy = bx - ax, by - ay
    L2 = dx * dx + dy * dy
    if L2 == 0:
        return ((px - ax) ** 2 + (py - ay) ** 2) ** 0.5
    t = max(0.0, min(1.0, ((px - ax) * dx + (py - ay) * dy) / L2))
    cx, cy = ax + t * dx, ay + t * dy
    return ((px - cx) ** 2 + (py - cy) ** 2) ** 0.5


def boundary_dist(poly, p) -> float:
    n = len(poly)
    return min(seg_dist(poly[i - 1], poly[i], p) for i in range(n))


def segments_intersect_exact(a, b, c, d) -> bool:
    """Closed segments ab and cd share at least one point (exact)."""
    a, b, c, d = _fr(a), _fr(b), _fr(c), _fr(d)

    def orient(p, q, r):
        v = (q[0] - p[0]) * (r[1] - p[1]) - (q[1] - p[1]) * (r[0] - p[0])
        return (v > 0) - (v < 0)

    def onseg(p, q, r):
        return min(p[0], q[0]) <= r[0] <= max(p[0], q[0]) and min(p[1], q[1]) <= r[1] <= max(p[1], q[1])

    o1, o2, o3, o4 = orient(a, b, c), orient(a, b, d), orient(c, d, a), orient(c, d, b)
    if o1 != o2 and o3 != o4:
        return True
    if o1 == 0 and onseg(a, b, c):
        return True
    if o2 == 0 and onseg(a, b, d):
        return True
    if o3 == 0 and onseg(c, d, a):
        return True
    if o4 == 0 and onseg(c, d, b):
        return True
    return False


def is_simple(poly) -> bool:
    """Simple polygon: non-zero area, no two edges touch except consecutive ones at their shared vertex."""
    n = len(poly)
    if n < 3 or len(set(map(tuple, poly))) != n:
        return False
    area2 = sum(_num(poly[i - 1][0]) * _num(poly[i][1]) - _num(poly[i][0]) * _num(poly[i - 1][1]) for i in range(n))
    if area2 == 0:
        return False
    edges = [(poly[i - 1], poly[i]) for i in range(n)]
    for i in range(n):
        for j in range(i + 1, n):
            a, b = edges[i]
            c, d = edges[j]
            adjacent = (j == i + 1) or (i == 0 and j == n - 1)
            if not adjacent:
                if segments_intersect_exact(a, b, c, d):
                    return False
            else:
                # consecutive edges share exactly one vertex; they must not overlap (spike)
                shared = b if j == i + 1 else a
                other1 = a if j == i + 1 else b
                other2 = d if j == i + 1 else c
                if on_segment_exact(shared, other1, other2) or on_segment_exact(shared, other2, other1):
                    return False
    return True


def signed_area(poly) -> float:
    n = len(poly)
    return 0.5 * sum(poly[i - 1][0] * poly[i][1] - poly[i][0] * poly[i - 1][1] for i in range(n))


# ------------------------------------------------------------------ vectorised float classifier (for bulk grids)
def classify_many(poly, pts, tol, guard=(0.5, 2.0)):
    """Vectorised classification of many points against one polygon: 1 inside, 0 on edge, -1 outside, 2 = guard band (not judged).

    Float arithmetic is sufficient here because every judged point is either within 0.5 tol of the boundary measure (on edge)
    or has a distance-sum excess > 2 tol, i.e. lies at least ~tol away from the boundary, where the crossing test is robust.
    The function is cross-checked against the exact classifier `classify` on a sample in every run that uses it."""
    import numpy as np

    P = np.asarray(pts, dtype=float).reshape(-1, 2)
    V = np.asarray([tuple(v) for v in poly], dtype=float)
    if len(V) > 1 and tuple(V[0]) == tuple(V[-1]):
        V = V[:-1]
    A = np.roll(V, 1, axis=0)
    B = V
    px = P[:, 0][:, None]
    py = P[:, 1][:, None]
    da = np.hypot(px - A[:, 0][None, :], py - A[:, 1][None, :])
    db = np.hypot(px - B[:, 0][None, :], py - B[:, 1][None, :])
    ab = np.hypot(A[:, 0] - B[:, 0], A[:, 1] - B[:, 1])[None, :]
    ex = np.abs(da + db - ab).min(axis=1)
    ay, by = A[:, 1][None, :], B[:, 1][None, :]
    ax, bx = A[:, 0][None, :], B[:, 0][None, :]
    straddle = (ay > py) != (by > py)
    with np.errstate(divide="ignore", invalid="ignore"):
        xi = ax + (py - ay) * (bx - ax) / (by - ay)
    cross = straddle & (xi > px)
    inside = (cross.sum(axis=1) % 2) == 1
    out = np.where(inside, 1, -1)
    out = np.where(ex < guard[0] * tol, 0, out)
    out = np.where((ex >= guard[0] * tol) & (ex <= guard[1] * tol), 2, out)
    return out, ex


def boundary_dist_many(poly, pts):
    import numpy as np

    P = np.asarray(pts, dtype=float).reshape(-1, 2)
    V = np.asarray([tuple(v) for v in poly], dtype=float)
    A = np.roll(V, 1, axis=0)
    B = V
    d = B - A
    L2 = (d**2).sum(axis=1)
    L2 = np.where(L2 == 0, 1.0, L2)
    t = ((P[:, None, 0] - A[None, :, 0]) * d[None, :, 0] + (P[:, None, 1] - A[None, :, 1]) * d[None, :, 1]) / L2[None, :]
    t = np.clip(t, 0.0, 1.0)
    cx = A[None, :, 0] + t * d[None, :, 0]
    cy = A[None, :, 1] + t * d[None, :, 1]
    return np.hypot(P[:, None, 0] - cx, P[:, None, 1] - cy).min(axis=1)
