"""Direct O(n^2) evaluation of the documented temporal superposition (independent of ghedesigner)."""
from __future__ import annotations

import math

import numpy as np


def eft(q_w, t_h, g_x, g_y, *, tg, k, H, N, m_dot, cp, rb, ts):
    """Heat-pump entering fluid temperature after each load step.

    q_w : total field load per step (W, rejection positive), step i lasts from t[i-1] to t[i]; t in hours; t_0 = 0, q_0 = 0.
    g(.) : linear interpolation of the table (g_x = ln(t/ts), g_y).
    """
    q = np.concatenate(([0.0], np.asarray(q_w, dtype=float)))
    t = np.concatenate(([0.0], np.asarray(t_h, dtype=float)))
    dq = q[1:] - q[:-1]
    n = len(q_w)
    out = np.empty(n)
    dtb = np.empty(n)
    c = 1.0 / (2.0 * math.pi * k * H * N)
    for j in range(1, n + 1):
        lag = (t[j] - t[0:j]) * 3600.0
        x = np.log(lag / ts)
        gv = np.interp(x, g_x, g_y)
        s = float(np.dot(dq[0:j], gv)) * c
        dtb[j - 1] = s
        out[j - 1] = tg + s + q[j] * rb / (H * N) - q[j] / (2.0 * m_dot * cp * N)
    return out, dtb
