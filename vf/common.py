"""Shared plumbing: seeds, violations, known findings, evidence, replay files."""
from __future__ import annotations

import hashlib
import json
import os
import sys
import time
import zlib
from dataclasses import dataclass, field
from pathlib import Path

import numpy as np

VERIF = Path(os.environ.get("VF_VERIF", Path(__file__).resolve().parent.parent))
REPO = Path(os.environ.get("VF_REPO", "/repo"))
# runs against a scratch worktree (VF_REPO=...) must not overwrite the evidence and replays of /repo
OUT_ROOT = Path(os.environ.get("VF_VERIF", str(Path(__file__).resolve().parent.parent))) if REPO == Path("/repo") else \
    Path(os.environ.get("VF_VERIF", str(Path(__file__).resolve().parent.parent))) / ".cache" / "alt" / REPO.name
TREE_HASH = os.environ.get("VF_TREE_HASH", "nohash")
CACHE = VERIF / ".cache"
TMP = CACHE / "tmp"
NPROC = int(os.environ.get("VF_NPROC", "16"))


def rng(seed: int, prop: str, shard: int = 0, extra: int = 0) -> np.random.Generator:
    return np.random.default_rng(np.random.SeedSequence([int(seed), zlib.crc32(prop.encode()), int(shard), int(extra)]))


def canon(obj) -> str:
    return json.dumps(obj, sort_keys=True, default=_default)


def _default(o):
    if isinstance(o, (np.integer,)):
        return int(o)
    if isinstance(o, (np.floating,)):
        return float(o)
    if isinstance(o, np.ndarray):
        return o.tolist()
    if isinstance(o, (set, tuple)):
        return list(o)
    if isinstance(o, Path):
        return str(o)
    return repr(o)


def jdump(obj, **kw) -> str:
    return json.dumps(obj, default=_default, **kw)


def digest(obj) -> str:
    return hashlib.sha256(canon(obj).encode()).hexdigest()[:16]


@dataclass
class Violation:
    """One refuting observation.  `mechanism` is decided by a classifier over the witness (never a hash)."""

    prop: str
    mechanism: str
    message: str
    witness: dict = field(default_factory=dict)

    def to_json(self):
        return {"property": self.prop, "mechanism": self.mechanism, "message": self.message, "witness": self.witness}


@dataclass
class Report:
    prop: str
    violations: list = field(default_factory=list)  # list[Violation]
    inconclusive: list = field(default_factory=list)  # list[str] reasons
    evaluations: int = 0
    nontrivial_keys: set = field(default_factory=set)  # hashes of distinct non-trivial cases
    rule: str = ""
    samples: list = field(default_factory=list)
    extra: dict = field(default_factory=dict)  # additional coverage keys
    assumptions: list = field(default_factory=list)
    exhaustive: bool | None = None
    nontrivial_count: int | None = None  # measured count when cases are distinct by construction

    def n_nontrivial(self):
        return self.nontrivial_count if self.nontrivial_count is not None else len(self.nontrivial_keys)

    def violate(self, mechanism, message, witness=None):
        self.violations.append(Violation(self.prop, mechanism, message, witness or {}))

    def nontrivial(self, key_obj):
        self.nontrivial_keys.add(digest(key_obj))

    def sample(self, obj, cap=6):
        if len(self.samples) < cap:
            self.samples.append(obj)

    def count(self, key, n=1):
        self.extra[key] = self.extra.get(key, 0) + n

    def worst(self, key, value):
        """Track the largest value seen for a margin/deviation."""
        if value is None or value != value:
            return
        cur = self.extra.get(key)
        if cur is None or value > cur:
            self.extra[key] = float(value)


def load_known():
    p = VERIF / "known_findings.json"
    if not p.exists():
        return []
    return json.loads(p.read_text()).get("entries", [])


def write_replay(prop: str, v: Violation) -> str:
    d = OUT_ROOT / "replays" / prop
    d.mkdir(parents=True, exist_ok=True)
    body = v.to_json()
    h = digest(body)
    p = d / f"{h}.json"
    p.write_text(jdump(body, indent=1))
    return str(p)


def finish(report: Report, tier: str, seed: int, t0: float, level="exploration") -> int:
    """Classify, print, write evidence, return the exit status."""
    prop = report.prop
    known = [k for k in load_known() if k["property"] == prop]
    finding_mechs = {k["mechanism"]: k for k in known if k["status"] == "finding"}
    matched: dict[str, list] = {}
    fresh = []
    for v in report.violations:
        if v.mechanism in finding_mechs:
            matched.setdefault(v.mechanism, []).append(v)
        else:
            fresh.append(v)
    lines = []
    for mech, vs in matched.items():
        lines.append(f"KNOWN-FINDING: property={prop} mechanism={mech} ({len(vs)} case(s) this run) {finding_mechs[mech]['what']}")
    # one VIOLATION line per distinct mechanism (first witness), all witnesses are saved
    seen = {}
    for v in fresh:
        path = write_replay(prop, v)
        if v.mechanism not in seen:
            seen[v.mechanism] = (path, v)
    for mech, (path, v) in seen.items():
        lines.append(f"VIOLATION property={prop} replay={path}")
        lines.append(f"  mechanism={mech}: {v.message}")
    status = 0
    if fresh:
        status = 1
    elif report.inconclusive:
        status = 2
        for r in report.inconclusive[:5]:
            lines.append(f"INCONCLUSIVE property={prop} reason={r}")
    coverage = {
        "evaluations": int(report.evaluations),
        "distinct_nontrivial": report.n_nontrivial(),
        "rule": report.rule,
        "samples": report.samples if report.samples else ["(no sample recorded)"],
        "known_findings_matched": {m: len(vs) for m, vs in matched.items()},
        "verdict": {0: "held-on-observed", 1: "violated", 2: "inconclusive"}[status],
        "inconclusive_reasons": report.inconclusive[:10],
        "tree_hash": TREE_HASH,
    }
    if report.exhaustive is not None:
        coverage["exhaustive"] = bool(report.exhaustive)
    coverage.update(report.extra)
    ev = {
        "property_id": prop,
        "tier": tier,
        "seed": int(seed),
        "level": level,
        "coverage": coverage,
        "assumptions": report.assumptions,
        "wall_s": round(time.time() - t0, 2),
        "violations": len(fresh),
    }
    if status == 0 and report.n_nontrivial() < 2:
        status = 2
        lines.append(f"INCONCLUSIVE property={prop} reason=fewer-than-2-nontrivial-cases")
        ev["coverage"]["verdict"] = "inconclusive"
    evp = OUT_ROOT / "evidence" / f"{prop}.json"
    evp.parent.mkdir(parents=True, exist_ok=True)
    text = jdump(ev, indent=1)
    try:
        import jsonschema

        schema_p = Path("/root/.vp/EVIDENCE.schema.json")
        if schema_p.exists():
            jsonschema.validate(json.loads(text), json.loads(schema_p.read_text()))
    except Exception as e:  # schema problems are ours, say so loudly but keep the verdict
        if status != 1:
            lines.append(f"(evidence schema check: {type(e).__name__}: {str(e)[:200]})")
    evp.write_text(text)
    for ln in lines:
        print(ln)
    print(
        f"[{prop} {tier} seed={seed}] evaluations={ev['coverage']['evaluations']} "
        f"distinct_nontrivial={ev['coverage']['distinct_nontrivial']} new_violations={len(fresh)} "
        f"known={sum(len(v) for v in matched.values())} wall={ev['wall_s']}s -> exit {status}"
    )
    sys.stdout.flush()
    return status
