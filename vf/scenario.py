"""Design-run worker: one full GHEManager run with all monitors attached -> JSON record (shared by C01, C02, C05, C12, C19, C20).

The record is an event log: inputs, outcome/exception, every search() call with its evaluations, the search tracker, the returned
design, the summary, an in-place re-simulation on a deep copy, an independent superposition cross-check, table checks, flow events.
Records are cached under .cache/scen keyed by (source tree hash, harness version, scenario)."""
from __future__ import annotations

import contextlib
import copy
import hashlib
import io
import json
import math
import time
import traceback
import warnings

import numpy as np

from vf import HARNESS_VERSION
from vf.common import CACHE, TREE_HASH, canon, jdump
from vf.gen import config as GC
from vf.gen import loads as GL

SCEN_VERSION = "8"


def scen_key(cfg, opts=None):
    return hashlib.sha256((TREE_HASH + HARNESS_VERSION + SCEN_VERSION + canon(cfg) + canon(opts or {})).encode()).hexdigest()[:24]


class SearchTap:
    """Wrappers on Bisection1D.search / calculate_excess / initialize_ghe, RowWise calculate_excess, BisectionZD.search_successive."""

    def __init__(self):
        import ghedesigner.search_routines as sr

        self.sr = sr
        self.calls = []  # one entry per search() call
        self.rowwise_evals = []
        self.successive = []
        self.hits = {"search": 0, "calculate_excess": 0, "rowwise_calculate_excess": 0, "search_successive": 0, "size": 0}
        self._stack = []
        self._orig = {
            "search": sr.Bisection1D.search,
            "calc": sr.Bisection1D.calculate_excess,
            "rcalc": sr.RowWiseModifiedBisectionSearch.calculate_excess,
            "succ": sr.BisectionZD.search_successive,
        }
        tap = self
        o = self._orig

        def search(self_, *a_, **kw_):
            entry = {
                "cls": type(self_).__name__,
                "counts": [len(c) for c in self_.coordinates_domain],
                "cap": self_.sim_params.max_boreholes,
                "evals": [],
                "result": None,
            }
            tap.calls.append(entry)
            tap._stack.append(entry)
            tap.hits["search"] += 1
            buf = io.StringIO()
            try:
                with contextlib.redirect_stdout(buf):
                    r = o["search"](self_, *a_, **kw_)
                entry["result"] = int(r[0])
                entry["calculated"] = {str(k): float(v) for k, v in self_.calculated_temperatures.items()}
                return r
            except BaseException as e:  # noqa: BLE001
                entry["result"] = f"{type(e).__name__}: {str(e)[:80]}"
                raise
            finally:
                tap._stack.pop()
                out = buf.getvalue()
                entry["escape_small"] = out.count("Smallest available configuration selected.")
                entry["escape_large"] = out.count("Largest available configuration selected.")
                entry["odd_behavior"] = out.count("odd behavior")
                print(out, end="")

        def calculate_excess(self_, coordinates, h, *a_, **kw_):
            r = o["calc"](self_, coordinates, h, *a_, **kw_)
            tap.hits["calculate_excess"] += 1
            if tap._stack:
                tap._stack[-1]["evals"].append([len(coordinates), float(h), float(r)])
            return r

        def rcalc(self_, coordinates, h, *a_, **kw_):
            r = o["rcalc"](self_, coordinates, h, *a_, **kw_)
            tap.hits["rowwise_calculate_excess"] += 1
            tap.rowwise_evals.append([len(coordinates), float(h), float(r), str(kw_.get("field_specifier", a_[0] if a_ else "N/A"))])
            return r

        def succ(self_, *a_, **kw_):
            tap.hits["search_successive"] += 1
            ent = {"selection_key_outer": int(self_.selection_key_outer), "n_lists": len(self_.coordinates_domain_nested)}
            tap.successive.append(ent)
            try:
                r = o["succ"](self_, *a_, **kw_)
                ent["heights"] = {str(k): float(v) for k, v in self_.calculated_heights.items()}
                ent["result"] = int(r[0])
                return r
            except BaseException as e:  # noqa: BLE001
                ent["result"] = f"{type(e).__name__}: {str(e)[:80]}"
                ent["heights"] = {str(k): float(v) for k, v in getattr(self_, "calculated_heights", {}).items()}
                raise

        sr.Bisection1D.search = search
        sr.Bisection1D.calculate_excess = calculate_excess
        sr.RowWiseModifiedBisectionSearch.calculate_excess = rcalc
        sr.BisectionZD.search_successive = succ

    def uninstall(self):
        sr = self.sr
        sr.Bisection1D.search = self._orig["search"]
        sr.Bisection1D.calculate_excess = self._orig["calc"]
        sr.RowWiseModifiedBisectionSearch.calculate_excess = self._orig["rcalc"]
        sr.BisectionZD.search_successive = self._orig["succ"]


def own_excess(hp_eft, tmax, tmin):
    a = np.asarray(hp_eft, dtype=float)
    return float(max(a.max() - tmax, tmin - a.min()))


def table_checks(mgr, loads):
    """C19 part: the output tables echo inputs / selected field / simulated curve.  Returns dict of problems (empty = ok)."""
    from ghedesigner.output import OutputManager

    prob = {}
    res = mgr.results
    s = mgr._search
    # loads table
    rows = res.hourly_loading_data_rows
    if len(rows) != len(loads) + 1:
        prob["loadings_row_count"] = f"{len(rows) - 1} rows for {len(loads)} loads"
    else:
        import datetime as dt

        t0 = dt.datetime(2019, 1, 1)
        for h in list(range(0, min(8760, len(loads)), 97)) + [0, 23, 24, 743, 744, 1415, 1416, 8759]:
            if h >= len(loads):
                continue
            r = rows[h + 1]
            d = t0 + dt.timedelta(hours=h)
            if r[3] != h or r[4] != loads[h] or (h < 8760 and (r[0], r[1], r[2]) != (d.month, d.day, d.hour + 1)):
                prob["loadings_row"] = f"row {h}: {r} vs load {loads[h]} at {d.month}/{d.day} hour {d.hour + 1}"
                break
        if [r[4] for r in rows[1:]] != list(loads):
            prob.setdefault("loadings_values", "loads column differs from the input list")
    # bore-field table
    bf = res.borehole_location_data_rows
    sel = [tuple(map(float, c)) for c in s.selected_coordinates]
    got = [tuple(map(float, r)) for r in bf[1:]]
    if bf[0] != ["x", "y"] or got != sel:
        prob["borefield"] = f"{len(got)} rows vs {len(sel)} selected coordinates (first differing row shown) " + str(next(((a, b) for a, b in zip(got, sel) if a != b), None))
    # g-function table
    gt_rows = res.g_function_data_rows
    xs = [r[0] for r in gt_rows[1:]]
    if any(b <= a for a, b in zip(xs, xs[1:])):
        prob["gfunction_time_not_increasing"] = "ln(t/ts) column not strictly increasing"
    with warnings.catch_warnings():
        warnings.simplefilter("ignore")
        g, gb = s.ghe.grab_g_function(s.ghe.B_spacing / float(s.ghe.bhe.b.H))
    if len(xs) != len(g.x) or np.max(np.abs(np.asarray(xs, dtype=float) - g.x)) > 0 or np.max(np.abs(np.asarray([r[1] for r in gt_rows[1:]], dtype=float) - g.y)) > 1e-12 or np.max(
        np.abs(np.asarray([r[2] for r in gt_rows[1:]], dtype=float) - gb.y)
    ) > 1e-12:
        prob["gfunction_rows"] = "table rows differ from the curve used in the simulation"
    return prob


def run_scenario(cfg, opts=None):
    """Execute one design run under monitors; never raises."""
    from vf.oracle.superposition import eft
    from vf.props.C09 import params_of
    from vf.props.C20 import FlowTap, judge_events

    opts = opts or {}
    t0 = time.time()
    rec = {"cfg": cfg, "key": scen_key(cfg, opts), "tree": TREE_HASH}
    loads = GL.make_loads(cfg["loads_desc"])
    loads_ref = tuple(loads)  # immutable copy: the expectation of the loads table cannot be moved by a tool that edits the list it was handed
    geo = cfg["geometric_constraints"]
    des = cfg["design"]
    tap = SearchTap()
    ftap = FlowTap()
    wm = None
    if opts.get("monitors"):
        from vf.instrument import WorkloadMonitors

        wm = WorkloadMonitors()
    sink = io.StringIO()
    mgr = None
    try:
        with warnings.catch_warnings():
            warnings.simplefilter("ignore")
            with contextlib.redirect_stdout(sink), contextlib.redirect_stderr(sink):
                mgr = GC.build_manager(cfg, loads=loads)
                try:
                    mgr.find_design()
                    rec["outcome"] = "design"
                except ValueError as e:
                    rec["outcome"] = "ValueError"
                    rec["exc_msg"] = str(e)[:200]
                    tb = traceback.extract_tb(e.__traceback__)
                    rec["exc_where"] = [f"{f.name}:{f.lineno}" for f in tb if "ghedesigner" in f.filename][-3:]
                    rec["exc_origin"] = "ghedesigner" if tb and "ghedesigner" in tb[-1].filename else tb[-1].filename.split("/")[-1] if tb else "?"
                except Exception as e:  # noqa: BLE001
                    rec["outcome"] = "exception"
                    rec["exc_type"] = type(e).__name__
                    rec["exc_msg"] = str(e)[:200]
                    tb = traceback.extract_tb(e.__traceback__)
                    rec["exc_where"] = [f"{f.name}:{f.lineno}" for f in tb if "ghedesigner" in f.filename][-3:]
        out = sink.getvalue()
        rec["stdout_flags"] = {
            "smallest": out.count("Smallest available configuration selected."),
            "largest": out.count("Largest available configuration selected."),
            "odd": out.count("odd behavior"),
            "fewer_msg": out.count("requires fewer or shorter"),
            "more_msg": out.count("requires more or deeper"),
        }
        rec["searches"] = tap.calls
        rec["rowwise_evals"] = tap.rowwise_evals
        rec["successive"] = tap.successive
        rec["hits"] = dict(tap.hits)
        flow_viol = []
        events = ftap.pop()
        judge_events(events, flow_viol, {})
        ghe_ev = [e for e in events if e["ev"] == "ghe"]
        rec["flow"] = {
            "events": len(events),
            "violations": [{"mechanism": v["mechanism"], "message": v["message"]} for v in flow_viol[:5]],
            "system_products": sorted({round(e["m_bh"] * e["N"], 9) for e in ghe_ev}) if des["flow_type"].upper() == "SYSTEM" else None,
            "borehole_flows": sorted({round(e["m_bh"], 12) for e in ghe_ev}) if des["flow_type"].upper() == "BOREHOLE" else None,
            "n_values": sorted({e["N"] for e in ghe_ev}),
            "hits": dict(ftap.hits),
        }
        if rec["outcome"] == "design":
            s = mgr._search
            ghe = s.ghe
            sp = ghe.sim_params
            H = float(ghe.bhe.b.H)
            sel = [tuple(map(float, c)) for c in s.selected_coordinates]
            rec["tracker"] = [[str(r[0]), float(r[1]), float(r[2]), float(r[3])] for r in s.searchTracker]
            rec["final"] = {
                "cls": type(s).__name__,
                "nbh": len(sel),
                "nbh_gfunction": len(ghe.gFunction.bore_locations),
                "H": H,
                "hmin": float(sp.min_height),
                "hmax": float(sp.max_height),
                "cap": sp.max_boreholes,
                "flag": bool(sp.continue_if_design_unmet),
                "tmax": float(sp.max_EFT_allowable),
                "tmin": float(sp.min_EFT_allowable),
                "coords_hash": hashlib.sha256(np.asarray(sel, dtype=float).tobytes()).hexdigest()[:16],
                "coords_head": sel[:4],
                "selection_key": int(getattr(s, "selection_key", -1)) if not isinstance(getattr(s, "selection_key", -1), str) else -1,
                "calculated": {str(k): float(v) for k, v in getattr(s, "calculated_temperatures", {}).items()},
                "list_counts": [len(c) for c in getattr(s, "coordinates_domain", [])] if hasattr(s, "coordinates_domain") else None,
                "reported_max": float(max(ghe.hp_eft)) if len(ghe.hp_eft) else None,
                "reported_min": float(min(ghe.hp_eft)) if len(ghe.hp_eft) else None,
                "hp_eft_hash": hashlib.sha256(np.asarray(ghe.hp_eft, dtype=float).tobytes()).hexdigest()[:16],
            }
            # summary as the user sees it
            try:
                with warnings.catch_warnings():
                    warnings.simplefilter("ignore")
                    with contextlib.redirect_stdout(sink):
                        mgr.prepare_results("verif", "n", "a", "i")
            except Exception as e:  # noqa: BLE001 - the tool failed to report a design it has just produced
                tb = traceback.extract_tb(e.__traceback__)
                rec["summary_error"] = {"type": type(e).__name__, "msg": str(e)[:200], "where": [f"{f.name}:{f.lineno}" for f in tb if "ghedesigner" in f.filename][-3:]}
            od = mgr.results.output_dict if mgr.results is not None else None
            if od is not None:
              rec["summary"] = {
                "number_of_boreholes": od["ghe_system"]["number_of_boreholes"],
                "total_drilling": od["ghe_system"]["total_drilling"]["value"],
                "active_borehole_length": od["ghe_system"]["active_borehole_length"]["value"],
                "max_hp_eft": od["simulation_results"]["max_hp_eft"]["value"],
                "min_hp_eft": od["simulation_results"]["min_hp_eft"]["value"],
                "borefield_rows": len(mgr.results.borehole_location_data_rows) - 1,
                "search_log_rows": [[str(r[0]), float(r[1]), float(r[2]), float(r[3])] for r in od["design_selection_search_log"]["data"]],
                "text_nbh_line": next((ln for ln in mgr.results.text_summary.split("\n") if "NBH:" in ln), ""),
                "text_lines": {k: next((ln.split()[-1] for ln in mgr.results.text_summary.split("\n") if ln.strip().startswith(k)), None)
                               for k in ("NBH:", "Max HP EFT, C:", "Min HP EFT, C:", "Total Drilling, m:", "Active Borehole Length, m:")},
              }
              rec["tables"] = table_checks(mgr, loads_ref)
            # in-place re-simulation on a deep copy (the monitor must not repair what it observes)
            from ghedesigner.enums import TimestepType

            g2 = copy.deepcopy(ghe)
            with warnings.catch_warnings():
                warnings.simplefilter("ignore")
                mx, mn = g2.simulate(method=TimestepType.HYBRID)
                gi, _ = g2.grab_g_function(g2.B_spacing / g2.bhe.b.H)
            resim = {"max": float(mx), "min": float(mn), "excess": own_excess(g2.hp_eft, sp.max_EFT_allowable, sp.min_EFT_allowable)}
            # independent superposition of the same hybrid sequence with the same combined curve
            P = params_of(g2)
            qh = np.asarray(g2.hybrid_load.load[2:], dtype=float) * 1000.0
            th = np.asarray(g2.hybrid_load.hour[2:], dtype=float)
            if np.all(np.diff(np.concatenate(([0.0], th))) > 0):
                exp, _ = eft(qh, th, np.asarray(gi.x), np.asarray(gi.y), **P)
                resim["oracle_err"] = float(np.max(np.abs(exp - np.asarray(g2.hp_eft, dtype=float))))
                resim["oracle_excess"] = own_excess(exp, sp.max_EFT_allowable, sp.min_EFT_allowable)
            else:
                resim["oracle_err"] = None
            # when the returned height is interior but the excess there is not ~0, look 1 mm to either side: a sign change
            # there means the root solver converged onto a jump of the sizing objective (classifier input for C01/C05)
            if sp.min_height + 1e-9 < H < sp.max_height - 1e-9 and abs(resim["excess"]) > 5e-4:
                side = {}
                for name, dh in (("minus", -1e-3), ("plus", 1e-3)):
                    g3 = copy.deepcopy(ghe)
                    g3.bhe.b.H = H + dh
                    with warnings.catch_warnings():
                        warnings.simplefilter("ignore")
                        g3.simulate(method=TimestepType.HYBRID)
                    side[name] = own_excess(g3.hp_eft, sp.max_EFT_allowable, sp.min_EFT_allowable)
                resim["excess_1mm_below"] = side["minus"]
                resim["excess_1mm_above"] = side["plus"]
            rec["resim"] = resim
            rec["loads_peak_kw"] = float(max(abs(x) for x in loads) / 1000.0)
    except Exception as e:  # noqa: BLE001 - harness trouble: recorded, judged inconclusive
        rec["harness_error"] = f"{type(e).__name__}: {e}"
        rec["harness_tb"] = traceback.format_exc()[-1500:]
    finally:
        tap.uninstall()
        ftap.uninstall()
        if wm is not None:
            try:
                rec["workload_monitors"] = wm.report()
            except Exception as e:  # noqa: BLE001
                rec["workload_monitors"] = {"hits": {}, "violations": {}, "error": f"{type(e).__name__}: {e}"}
            wm.uninstall()
    rec["wall"] = round(time.time() - t0, 2)
    return json.loads(jdump(rec))


def cached_run(cfg, opts=None):
    d = CACHE / "scen"
    d.mkdir(parents=True, exist_ok=True)
    p = d / f"{scen_key(cfg, opts)}.json"
    if p.exists():
        try:
            return json.loads(p.read_text())
        except Exception:  # noqa: BLE001
            pass
    rec = run_scenario(cfg, opts)
    if "harness_error" not in rec:
        tmp = p.with_suffix(".tmp%d" % (hash(time.time()) % 100000))
        tmp.write_text(jdump(rec))
        tmp.replace(p)
    return rec


def run_shard(spec):
    """Pool worker: spec = {cfgs: [...]}; returns {records: [...]}."""
    return {"records": [cached_run(c, spec.get("opts")) for c in spec["cfgs"]]}
