"""Entry point: python -m vf.main <ID> <quick|thorough> [--replay file]"""
import importlib
import json
import os
import sys
import time


def tree_hash(repo):
    """Same digest as ./check computes (all ghedesigner/*.py and schema files, in shell glob order)."""
    import glob
    import hashlib

    h = hashlib.sha256()
    for pat in ("ghedesigner/*.py", "ghedesigner/schemas/*.json"):
        for f in sorted(glob.glob(os.path.join(str(repo), pat))):
            with open(f, "rb") as fh:
                h.update(fh.read())
    return h.hexdigest()[:16]


def main():
    args = sys.argv[1:]
    if not args:
        print("usage: check <ID> <quick|thorough> [--replay file]")
        return 2
    prop = args[0].upper()
    tier = "quick"
    replay = None
    i = 1
    while i < len(args):
        if args[i] in ("quick", "thorough"):
            tier = args[i]
        elif args[i] == "--replay":
            replay = args[i + 1]
            i += 1
        i += 1
    tier = os.environ.get("VERIF_TIER", tier) if len(args) < 2 else tier
    seed = int(os.environ.get("VERIF_SEED", "0"))
    t0 = time.time()
    from vf.common import REPO, Report, finish

    import ghedesigner

    if not str(ghedesigner.__file__).startswith(str(REPO)):
        print(f"INCONCLUSIVE property={prop} reason=ghedesigner-not-imported-from-repo ({ghedesigner.__file__})")
        return 2
    try:
        mod = importlib.import_module(f"vf.props.{prop}")
    except ModuleNotFoundError as e:
        print(f"INCONCLUSIVE property={prop} reason=no-such-check ({e})")
        return 2
    h0 = tree_hash(REPO)
    if replay:
        witness = json.loads(open(replay).read())
        report = mod.replay(witness)
    else:
        report = mod.check(tier, seed)
    if tree_hash(REPO) != h0:
        # worker and child processes import the repository when they start: a tree edited while the check runs is observed as two
        # different programs (this produced one spurious C13 alarm during development, notes/findings_log.md) - nothing can be concluded
        print(f"INCONCLUSIVE property={prop} reason=repository-source-changed-while-the-check-was-running")
        return 2
    return finish(report, tier, seed, t0, level=getattr(mod, "LEVEL", "exploration"))


if __name__ == "__main__":
    sys.exit(main())
