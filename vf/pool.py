"""16-way shard runner: one subprocess per shard, subprocess.run(timeout=), never multiprocessing.Pool."""
from __future__ import annotations

import json
import os
import subprocess
import sys
import time
import uuid
from concurrent.futures import ThreadPoolExecutor

from vf.common import NPROC, TMP, jdump


def _run_one(module: str, spec: dict, timeout: float):
    TMP.mkdir(parents=True, exist_ok=True)
    out = TMP / f"{uuid.uuid4().hex}.json"
    t0 = time.time()
    try:
        p = subprocess.run(
            [sys.executable, "-m", "vf.worker", module, str(out)],
            input=jdump(spec).encode(),
            stdout=subprocess.PIPE,
            stderr=subprocess.PIPE,
            timeout=timeout,
        )
        if out.exists():
            try:
                res = json.loads(out.read_text())
            except Exception as e:
                res = {"_harness_error": f"unreadable result: {e}"}
        else:
            res = {"_harness_error": f"worker exit {p.returncode}: {p.stderr.decode(errors='replace')[-1500:]}"}
    except subprocess.TimeoutExpired:
        res = {"_harness_error": f"watchdog timeout after {timeout}s", "_timeout": True}
    finally:
        try:
            out.unlink()
        except OSError:
            pass
    if isinstance(res, dict):
        res["_wall"] = round(time.time() - t0, 2)
        res["_spec"] = spec
    return res


def run_pool(module: str, specs: list, timeout: float = 1800.0, nproc: int | None = None, progress: bool = True):
    """Run module.run_shard(spec) for every spec in child processes; results in spec order."""
    nproc = nproc or NPROC
    results = [None] * len(specs)
    t0 = time.time()
    done = 0
    with ThreadPoolExecutor(max_workers=nproc) as ex:
        futs = {ex.submit(_run_one, module, s, timeout): i for i, s in enumerate(specs)}
        from concurrent.futures import as_completed

        for f in as_completed(futs):
            i = futs[f]
            results[i] = f.result()
            done += 1
            if progress and os.environ.get("VF_PROGRESS") and (done % 10 == 0 or done == len(specs)):
                print(f"  .. {done}/{len(specs)} shards, {time.time() - t0:.0f}s", file=sys.stderr, flush=True)
    return results
