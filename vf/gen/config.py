"""Full tool configurations (all six design methods) in the input-file vocabulary + builder through the public API."""
from __future__ import annotations

import math

import numpy as np

from vf.gen import loads as GL
from vf.gen import lots as GLOT
from vf.gen import phys as GP

METHODS = ["NEARSQUARE", "RECTANGLE", "BIRECTANGLE", "BIZONEDRECTANGLE", "BIRECTANGLECONSTRAINED", "ROWWISE"]


def window_ok(L, b_min, b_max, need=2):
    n_lo = math.ceil(L / b_max + 1)
    n_hi = math.floor(L / b_min + 1)
    return n_hi >= n_lo and n_lo >= need


def draw_geometry(g, method, max_side=None, cap_bh=144):
    """Geometric constraints (input-file keys, without heights) whose largest candidate has <= cap_bh boreholes."""
    side_cap = int(math.sqrt(cap_bh))  # boreholes per side
    for _ in range(500):
        b_min = float(round(g.uniform(4.0, 8.0), 2))
        if method == "NEARSQUARE":
            n = int(g.integers(3, side_cap))
            length = float(round(b_min * (n - 1) + g.uniform(0, 0.9) * b_min, 2))
            return {"method": method, "b": b_min, "length": length}
        nx = int(g.integers(3, side_cap + 1))
        ny = int(g.integers(3, side_cap + 1))
        length = float(round(b_min * (nx - 1) + g.uniform(0.0, 0.95) * b_min, 2))
        width = float(round(b_min * (ny - 1) + g.uniform(0.0, 0.95) * b_min, 2))
        if g.random() < 0.35:
            length, width = min(length, width), max(length, width)
        b_max_x = float(round(b_min * g.uniform(1.3, 3.0), 2))
        b_max_y = float(round(b_min * g.uniform(1.3, 3.0), 2))
        if method == "RECTANGLE":
            if not (window_ok(max(length, width), b_min, b_max_x, 3)):
                continue
            return {"method": method, "length": length, "width": width, "b_min": b_min, "b_max": b_max_x}
        if method in ("BIRECTANGLE", "BIZONEDRECTANGLE"):
            if not all(window_ok(L, b_min, bm, 3) for L in (length, width) for bm in (b_max_x, b_max_y)):
                continue
            return {"method": method, "length": length, "width": width, "b_min": b_min, "b_max_x": b_max_x, "b_max_y": b_max_y}
        if method == "BIRECTANGLECONSTRAINED":
            size = max(length, width)
            kind = int(g.integers(0, 3))
            poly = [GLOT.convex, GLOT.star, GLOT.orthogonal][kind](g, size)
            outlines = [[list(p) for p in poly]]
            nogo = []
            if g.random() < 0.6:
                s = size * float(g.uniform(0.15, 0.3))
                ng = GLOT.convex(g, s, origin=(float(round(size * g.uniform(0.2, 0.5), 2)), float(round(size * g.uniform(0.2, 0.5), 2))))
                nogo.append([list(p) for p in ng])
            mx = max(p[0] for p in poly)
            my = max(p[1] for p in poly)
            if not all(window_ok(L, b_min, bm, 3) for L in (mx, my) for bm in (b_max_x, b_max_y)):
                continue
            return {"method": method, "b_min": b_min, "b_max_x": b_max_x, "b_max_y": b_max_y, "property_boundary": outlines, "no_go_boundaries": nogo}
        if method == "ROWWISE":
            size = float(round(g.uniform(35, 70), 1))
            poly = GLOT.convex(g, size, n=int(g.integers(4, 9)), origin=(float(round(g.uniform(0, 20), 1)), float(round(g.uniform(0, 20), 1))) if g.random() < 0.5 else (0.0, 0.0))
            min_sp = float(round(g.uniform(7.0, 10.0), 1))
            max_sp = float(round(min_sp * g.uniform(1.5, 2.2), 1))
            xs = [p[0] for p in poly]
            ys = [p[1] for p in poly]
            # not a sliver at any rotation: the narrowest extent must exceed the largest spacing comfortably
            if min_width(poly) < 1.3 * max_sp:
                continue
            rot_lo = float(g.choice([-90.0, -45.0, -30.0, 0.0]))
            rot_hi = float(min(90.0, rot_lo + g.choice([30.0, 45.0, 90.0])))
            nogo = []
            if g.random() < 0.3:
                ng = GLOT.inner_convex(g, poly, margin=max_sp * 0.6)
                if ng:
                    nogo.append([list(p) for p in ng])
            return {
                "method": method,
                "perimeter_spacing_ratio": (float(round(g.uniform(0.6, 0.95), 2)) if g.random() < 0.5 else None),
                "min_spacing": min_sp,
                "max_spacing": max_sp,
                "spacing_step": float(round(g.uniform(0.1, 1.0), 2)),
                "min_rotation": rot_lo,
                "max_rotation": rot_hi,
                "rotate_step": float(g.choice([5.0, 7.5, 10.0, 15.0])),
                "property_boundary": [list(p) for p in poly],
                "no_go_boundaries": nogo,
            }
    raise RuntimeError(f"geometry generator failed for {method}")


def min_width(poly):
    """Smallest extent of a convex polygon over all directions (checked on edge normals)."""
    best = math.inf
    n = len(poly)
    for i in range(n):
        ax, ay = poly[i - 1]
        bx, by = poly[i]
        L = math.hypot(bx - ax, by - ay)
        if L == 0:
            continue
        nx, ny = -(by - ay) / L, (bx - ax) / L
        proj = [p[0] * nx + p[1] * ny for p in poly]
        best = min(best, max(proj) - min(proj))
    return best


def draw_config(g, method=None, pipe=None, flow_type=None, cap_bh=144):
    method = method or str(g.choice(METHODS))
    pipe = pipe or str(g.choice(GP.PIPES))
    ph = GP.draw_phys(g, pipe)
    geo = draw_geometry(g, method, cap_bh=cap_bh)
    hmin = float(round(g.uniform(25, 80), 1))
    hmax = float(round(hmin + g.choice([1.0, 10.0, 40.0, 75.0, 150.0, 300.0], p=[0.05, 0.1, 0.15, 0.2, 0.25, 0.25]), 1))
    hmax = min(hmax, 400.0)
    geo["max_height"] = hmax
    geo["min_height"] = hmin
    tg = ph["soil"]["undisturbed_temp"]
    ft = flow_type or str(g.choice(["BOREHOLE", "SYSTEM"]))
    v = GP.draw_flow(g, pipe) if g.random() < 0.3 else float(round(g.uniform(0.2, 0.8), 3))
    if ft == "SYSTEM":
        # a system flow is shared by all boreholes: scale the per-borehole draw by a typical field size
        v = float(round(v * float(g.choice([4, 9, 16, 30, 60])), 3))
    design = {
        "flow_rate": v,
        "flow_type": ft,
        "max_eft": float(round(tg + g.uniform(8, 22), 1)),
        "min_eft": float(round(tg - g.uniform(5, 14), 1)),
    }
    return {
        "version": "1.5",
        "fluid": ph["fluid"],
        "grout": ph["grout"],
        "soil": ph["soil"],
        "pipe": ph["pipe"],
        "borehole": ph["borehole"],
        "simulation": {"num_months": int(g.choice([12, 13, 24, 36, 60, 120, 240, 360])) if g.random() < 0.8 else int(g.integers(12, 361))},
        "geometric_constraints": geo,
        "design": design,
        "loads_desc": GL.draw_desc(g),
    }


def phys_of(cfg):
    return {k: cfg[k] for k in ("fluid", "grout", "soil", "pipe", "borehole")}


def build_manager(cfg, loads=None, nominal_height=None, order=None):
    """GHEManager configured through the public setters (optionally in a permuted order), ready for find_design()."""
    from ghedesigner.manager import GHEManager

    if loads is None:
        loads = GL.make_loads(cfg["loads_desc"])
    geo = cfg["geometric_constraints"]
    des = cfg["design"]
    m = GHEManager()
    steps = {
        "fluid": lambda: m.set_fluid(**cfg["fluid"]),
        "grout": lambda: m.set_grout(**cfg["grout"]),
        "soil": lambda: m.set_soil(**cfg["soil"]),
        "pipe": lambda: GP.set_pipe(m, cfg["pipe"]),
        "borehole": lambda: m.set_borehole(height=nominal_height if nominal_height is not None else geo["max_height"],
                                            buried_depth=cfg["borehole"]["buried_depth"], diameter=cfg["borehole"]["diameter"]),
        "loads": lambda: m.set_ground_loads_from_hourly_list(loads),
        "sim": lambda: m.set_simulation_parameters(
            num_months=cfg["simulation"]["num_months"], max_eft=des["max_eft"], min_eft=des["min_eft"], max_height=geo["max_height"],
            min_height=geo["min_height"], max_boreholes=des.get("max_boreholes"), continue_if_design_unmet=des.get("continue_if_design_unmet", False)),
        "geometry": lambda: set_geometry(m, geo),
    }
    names = order or list(steps)
    for nme in names:
        steps[nme]()
    m.set_design(flow_rate=des["flow_rate"], flow_type_str=des["flow_type"])
    return m


def set_geometry(m, geo):
    meth = geo["method"].upper()
    if meth == "NEARSQUARE":
        m.set_design_geometry_type("NEARSQUARE")
        m.set_geometry_constraints_near_square(b=geo["b"], length=geo["length"])
    elif meth == "RECTANGLE":
        m.set_geometry_constraints_rectangle(length=geo["length"], width=geo["width"], b_min=geo["b_min"], b_max=geo["b_max"])
    elif meth == "BIRECTANGLE":
        m.set_geometry_constraints_bi_rectangle(length=geo["length"], width=geo["width"], b_min=geo["b_min"], b_max_x=geo["b_max_x"], b_max_y=geo["b_max_y"])
    elif meth == "BIZONEDRECTANGLE":
        m.set_geometry_constraints_bi_zoned_rectangle(length=geo["length"], width=geo["width"], b_min=geo["b_min"], b_max_x=geo["b_max_x"], b_max_y=geo["b_max_y"])
    elif meth == "BIRECTANGLECONSTRAINED":
        m.set_geometry_constraints_bi_rectangle_constrained(b_min=geo["b_min"], b_max_x=geo["b_max_x"], b_max_y=geo["b_max_y"],
                                                             property_boundary=geo["property_boundary"], no_go_boundaries=geo["no_go_boundaries"])
    elif meth == "ROWWISE":
        m.set_geometry_constraints_rowwise(
            perimeter_spacing_ratio=geo.get("perimeter_spacing_ratio"), max_spacing=geo["max_spacing"], min_spacing=geo["min_spacing"],
            spacing_step=geo["spacing_step"], max_rotation=geo["max_rotation"], min_rotation=geo["min_rotation"], rotate_step=geo["rotate_step"],
            property_boundary=geo["property_boundary"], no_go_boundaries=geo["no_go_boundaries"])
    else:
        raise ValueError(meth)


def to_input_dict(cfg, loads=None):
    """The configuration as an input-file dictionary (for CLI runs)."""
    d = {k: cfg[k] for k in ("version", "fluid", "grout", "soil", "pipe", "borehole", "simulation", "geometric_constraints", "design")}
    d = __import__("json").loads(__import__("json").dumps(d))
    if d["geometric_constraints"].get("perimeter_spacing_ratio", 0) is None:
        del d["geometric_constraints"]["perimeter_spacing_ratio"]
    d["loads"] = {"ground_loads": loads if loads is not None else GL.make_loads(cfg["loads_desc"])}
    return d
