"""Seeded land outlines: convex, star-shaped and orthogonal polygons with non-negative coordinates."""
from __future__ import annotations

import math

import numpy as np

from vf.oracle import polygon as O


def convex(g, size, n=None, origin=(0.0, 0.0), touch_axes=True):
    n = n or int(g.integers(3, 13))
    for _ in range(50):
        ang = np.sort(g.uniform(0, 2 * math.pi, n))
        if np.min(np.diff(np.concatenate((ang, [ang[0] + 2 * math.pi])))) < 0.15:
            continue
        a, b = size / 2, size / 2 * g.uniform(0.5, 1.0)
        pts = [(a * math.cos(t), b * math.sin(t)) for t in ang]
        mx = min(p[0] for p in pts)
        my = min(p[1] for p in pts)
        ox, oy = origin
        poly = [(round(p[0] - mx + ox, 6), round(p[1] - my + oy, 6)) for p in pts]
        if O.is_simple(poly) and O.signed_area(poly) > 0:
            return poly
    return [(origin[0], origin[1]), (origin[0] + size, origin[1]), (origin[0] + size, origin[1] + size), (origin[0], origin[1] + size)]


def star(g, size, n=None, origin=(0.0, 0.0)):
    n = n or int(g.integers(5, 14))
    for _ in range(50):
        ang = np.sort(g.uniform(0, 2 * math.pi, n))
        rad = g.uniform(0.35, 1.0, n) * size / 2
        pts = [(r * math.cos(t), r * math.sin(t)) for r, t in zip(rad, ang)]
        mx = min(p[0] for p in pts)
        my = min(p[1] for p in pts)
        poly = [(round(p[0] - mx + origin[0], 6), round(p[1] - my + origin[1], 6)) for p in pts]
        if O.is_simple(poly):
            return poly
    return convex(g, size, origin=origin)


def orthogonal(g, size, origin=(0.0, 0.0), unit=None):
    """L / U / staircase lots on a coarse lattice of pitch `unit` (edges coincide with grid lines of that pitch)."""
    unit = unit or size / float(g.integers(4, 9))
    k = int(round(size / unit))
    kind = int(g.integers(0, 3))
    ox, oy = origin
    if kind == 0:  # L
        a, b = int(g.integers(1, k)), int(g.integers(1, k))
        cells = [(0, 0), (k, 0), (k, b), (a, b), (a, k), (0, k)]
    elif kind == 1:  # U
        a1 = int(g.integers(1, max(2, k // 2)))
        a2 = int(g.integers(k // 2 + 1, k)) if k // 2 + 1 < k else k - 1
        d = int(g.integers(1, k))
        if a2 <= a1:
            a2 = a1 + 1
        cells = [(0, 0), (k, 0), (k, k), (a2, k), (a2, d), (a1, d), (a1, k), (0, k)]
    else:  # staircase descending to the right
        steps = int(min(int(g.integers(2, 6)), k))
        xs = sorted(g.choice(np.arange(1, k), steps - 1, replace=False).tolist()) + [k] if steps > 1 else [k]
        hs = sorted(g.choice(np.arange(1, k + 1), steps, replace=False).tolist(), reverse=True)
        cells = [(0, 0), (xs[-1], 0)]
        for i in range(steps - 1, -1, -1):
            cells.append((xs[i], hs[i]))
            left = xs[i - 1] if i > 0 else 0
            cells.append((left, hs[i]))
    poly = []
    for c in cells:
        p = (round(ox + c[0] * unit, 6), round(oy + c[1] * unit, 6))
        if not poly or poly[-1] != p:
            poly.append(p)
    if not O.is_simple(poly):
        return [(ox, oy), (ox + size, oy), (ox + size, oy + size), (ox, oy + size)]
    if O.signed_area(poly) < 0:
        poly = poly[::-1]
    return poly


def inner_convex(g, outer, margin, size_frac=(0.1, 0.3)):
    """Convex polygon strictly inside a convex outer polygon, every vertex at least `margin` from the outline."""
    xs = [p[0] for p in outer]
    ys = [p[1] for p in outer]
    w, h = max(xs) - min(xs), max(ys) - min(ys)
    for _ in range(200):
        s = min(w, h) * g.uniform(*size_frac)
        cx = g.uniform(min(xs) + margin + s / 2, max(xs) - margin - s / 2) if w > 2 * margin + s else None
        cy = g.uniform(min(ys) + margin + s / 2, max(ys) - margin - s / 2) if h > 2 * margin + s else None
        if cx is None or cy is None:
            continue
        n = int(g.integers(3, 8))
        ang = np.sort(g.uniform(0, 2 * math.pi, n))
        if np.min(np.diff(np.concatenate((ang, [ang[0] + 2 * math.pi])))) < 0.3:
            continue
        poly = [(round(cx + s / 2 * math.cos(t), 6), round(cy + s / 2 * math.sin(t), 6)) for t in ang]
        ok = all(O.crossing_inside_exact(outer, p) and O.boundary_dist(outer, p) >= margin for p in poly)
        if ok and O.is_simple(poly):
            return poly
    return None
