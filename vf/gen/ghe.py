"""Builders for real GHE objects (real BaseGHE/GHE constructors), with either a synthetic long-time g table or pygfunction's."""
from __future__ import annotations

import math
import warnings

import numpy as np

from vf.gen import phys as GP


def grid(nx, ny, b):
    return [(i * b, j * b) for i in range(nx) for j in range(ny)]


def synthetic_g_lts(g: np.random.Generator, n_bh: int, n_pts: int = 27):
    """Monotone increasing long-time curve of plausible magnitude (the checks do not depend on its physics)."""
    g0 = float(g.uniform(1.5, 3.5))
    inc = g.uniform(0.05, 0.6, n_pts - 1) * (1.0 + 0.25 * math.sqrt(n_bh) * np.linspace(0, 1, n_pts - 1) ** 2)
    return [g0] + list(g0 + np.cumsum(inc))


def make_gfunction(heights_to_curves: dict, b, r_b, d, coords):
    from ghedesigner.gfunction import GFunction
    from ghedesigner.utilities import eskilson_log_times

    return GFunction(
        b=b,
        d=d,
        r_b_values={h: (r_b[h] if isinstance(r_b, dict) else r_b) for h in heights_to_curves},  # one radius, or one per stored height
        g_lts={h: list(c) for h, c in heights_to_curves.items()},
        log_time=eskilson_log_times(),
        bore_locations=coords,
    )


def make_ghe(phys, coords, H, flow_lps_bh, loads, n_months, *, start_month=1, max_eft=35.0, min_eft=5.0, hmax=None, hmin=None,
             curves=None, real_g=False, rgen=None):
    """A real GHE (constructor runs the real to_single, radial model and HybridLoad)."""
    from ghedesigner.gfunction import calc_g_func_for_multiple_lengths
    from ghedesigner.ground_heat_exchangers import GHE
    from ghedesigner.simulation import SimulationParameters
    from ghedesigner.utilities import borehole_spacing, eskilson_log_times

    pt, fluid, bh, pipe, grout, soil = GP.bhe_objects(phys, H)
    n = len(coords)
    b = borehole_spacing(bh, coords)
    m_flow_bh = flow_lps_bh / 1000.0 * fluid.rho
    sp = SimulationParameters(start_month, start_month + n_months - 1, max_eft, min_eft, hmax if hmax is not None else max(H, 1.0) * 1.5,
                              hmin if hmin is not None else max(H, 1.0) * 0.5)
    with warnings.catch_warnings():
        warnings.simplefilter("ignore")
        if real_g:
            gf = calc_g_func_for_multiple_lengths(b, [H], bh.r_b, bh.D, m_flow_bh, pt, eskilson_log_times(), coords, fluid, pipe, grout, soil)
        else:
            if curves is None:
                curves = {H: synthetic_g_lts(rgen, n)}
            gf = make_gfunction(curves, b, bh.r_b, bh.D, coords)
        ghe = GHE(flow_lps_bh * n, b, pt, fluid, bh, pipe, grout, soil, gf, sp, loads, field_type="verif", field_specifier=f"{n}bh")
    return ghe
