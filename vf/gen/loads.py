"""Seeded 8760-hour ground-load profiles (W, extraction positive / rejection negative), from a small descriptor."""
from __future__ import annotations

import functools
import math

import numpy as np

from vf.common import REPO

MONTH_DAYS = [31, 28, 31, 30, 31, 30, 31, 31, 30, 31, 30, 31]
MONTH_HOURS = [24 * d for d in MONTH_DAYS]
MONTH_START = [0]
for _h in MONTH_HOURS:
    MONTH_START.append(MONTH_START[-1] + _h)

FAMILIES = [
    "atlanta",
    "atlanta_shift",
    "sinus",
    "heating_only",
    "cooling_only",
    "spiky",
    "constant",
    "zero_months",
    "edge_peaks",
    "same_day_peaks",
    "multiyear_first",
    "near_constant",
]
# families used by the hybrid-load checks only (the shared design-run pool keeps its composition)
HYBRID_EXTRA = ["plateau_edges"]


@functools.lru_cache(maxsize=4)
def _csv(name):
    p = REPO / "ghedesigner" / "tests" / "test_data" / name
    return [float(x) for x in p.read_text().split("\n")[1:] if x.strip() != ""]


def make_loads(desc: dict) -> list:
    """desc = {family, seed, scale}.  Returns a python list of 8760 floats."""
    fam = desc["family"]
    g = np.random.default_rng([int(desc.get("seed", 0)), 77])
    scale = float(desc.get("scale", 1.0))
    h = np.arange(8760)
    day = h // 24
    if fam == "atlanta":
        q = np.array(_csv("Atlanta_Office_Building_Loads.csv"))
    elif fam == "atlanta_shift":
        q = np.roll(np.array(_csv("Atlanta_Office_Building_Loads.csv")), int(g.integers(1, 8760))) * float(g.choice([1.0, -1.0]))
    elif fam == "multiyear_first":
        q = np.array(_csv("Multiyear_Loading_Example.csv")[:8760])
    elif fam == "sinus":
        amp = 40e3
        bias = g.uniform(-0.6, 0.6) * amp
        if "bias" in desc:
            bias = float(desc["bias"]) * amp  # > 0: extraction-dominated, < 0: rejection-dominated (the draw above keeps the stream aligned)
        q = bias + amp * np.cos(2 * math.pi * (h - g.uniform(0, 600)) / 8760) + 0.3 * amp * np.sin(2 * math.pi * h / 24) * g.uniform(0.2, 1)
        q = q + g.normal(0, 0.1 * amp, 8760)
    elif fam == "heating_only":
        q = np.maximum(0.0, 30e3 * np.cos(2 * math.pi * h / 8760) + g.normal(0, 8e3, 8760) + 5e3)
        if g.random() < 0.5:
            q = q + 1.0  # strictly positive every hour
    elif fam == "cooling_only":
        q = -np.maximum(0.0, -30e3 * np.cos(2 * math.pi * h / 8760) + g.normal(0, 8e3, 8760) + 5e3)
    elif fam == "spiky":
        q = g.normal(0, 1e3, 8760)
        k = int(g.integers(10, 80))
        idx = g.integers(0, 8760, k)
        q[idx] += g.choice([-1, 1], k) * g.uniform(20e3, 120e3, k)
    elif fam == "constant":
        q = np.full(8760, float(g.choice([-1, 1])) * 20e3)
    elif fam == "near_constant":
        q = np.full(8760, float(g.choice([-1, 1])) * 20e3) + g.normal(0, 1.0, 8760)
    elif fam == "zero_months":
        q = 30e3 * np.cos(2 * math.pi * h / 8760) + g.normal(0, 10e3, 8760)
        for m in g.choice(12, int(g.integers(1, 5)), replace=False):
            q[MONTH_START[m] : MONTH_START[m + 1]] = 0.0
        # one month with only rejection, one with only extraction
        m1, m2 = g.choice(12, 2, replace=False)
        q[MONTH_START[m1] : MONTH_START[m1 + 1]] = -np.abs(q[MONTH_START[m1] : MONTH_START[m1 + 1]])
        q[MONTH_START[m2] : MONTH_START[m2 + 1]] = np.abs(q[MONTH_START[m2] : MONTH_START[m2 + 1]])
    elif fam == "edge_peaks":
        # monthly peaks on the first or the last day of the month (including 1 Jan and 31 Dec)
        q = 10e3 * np.cos(2 * math.pi * h / 8760) + g.normal(0, 2e3, 8760)
        mode = int(g.integers(0, 3))  # 0 mixed, 1 heating-only months, 2 cooling-only months
        if mode == 1:
            q = np.abs(q)
        elif mode == 2:
            q = -np.abs(q)
        for m in range(12):
            first = g.random() < 0.5
            d = 0 if first else MONTH_DAYS[m] - 1
            hh = MONTH_START[m] + 24 * d + int(g.integers(0, 24))
            if mode in (0, 1):
                q[hh] = 60e3 + 1e3 * m
            d2 = 0 if g.random() < 0.5 else MONTH_DAYS[m] - 1
            hh2 = MONTH_START[m] + 24 * d2 + int(g.integers(0, 24))
            if hh2 != hh and mode in (0, 2):
                q[hh2] = -(50e3 + 1e3 * m)
    elif fam == "same_day_peaks":
        q = g.normal(0, 3e3, 8760)
        for m in range(12):
            d = int(g.integers(0, MONTH_DAYS[m]))
            a, b = g.choice(24, 2, replace=False)
            q[MONTH_START[m] + 24 * d + a] = 45e3
            q[MONTH_START[m] + 24 * d + b] = -55e3
    elif fam == "plateau_edges":
        # long events at the edges of months: a one- or two-day plateau (so the equivalent peak duration is long, up to 48 h) that ends on
        # the last day, the first day or a middle day of the month, and single-hour peaks in the last / first hour of a day
        q = g.normal(0, 0.3e3, 8760) + float(g.choice([-1.0, 1.0])) * 2e3
        for m in range(12):
            nd = MONTH_DAYS[m]
            for sign in (1.0, -1.0):
                if g.random() < 0.25:
                    continue
                d = int(g.choice([nd - 1, nd - 1, 0, 1, int(g.integers(2, nd - 1))]))
                P = sign * (30e3 + 1e3 * m)
                kind = int(g.integers(0, 3))
                h0 = MONTH_START[m] + 24 * d
                if kind == 0:
                    lo = max(0, h0 - 24)
                    q[lo : h0 + 24] = 0.99 * P
                    q[h0 + int(g.choice([23, 0, 12, int(g.integers(0, 24))]))] = P
                elif kind == 1:
                    q[h0 : h0 + 24] = 0.99 * P
                    q[h0 + int(g.choice([23, 0, int(g.integers(0, 24))]))] = P
                else:
                    q[h0 + int(g.choice([23, 23, 0]))] = P
    else:
        raise ValueError(fam)
    q = np.asarray(q, dtype=float) * scale
    # the form in which the profile is handed over: the tool documents "a list of hourly loads in W" - whole watts written without a
    # decimal point (JSON integers) and numpy arrays are legal forms of the same profile
    form = desc.get("form", "float")
    if form == "float":
        return [float(x) for x in q]
    if form == "int":
        return [int(round(float(x))) for x in q]
    if form == "np_int":
        return np.asarray([int(round(float(x))) for x in q], dtype=np.int64)
    if form == "np_float":
        return np.asarray(q, dtype=float)
    raise ValueError(form)


def draw_desc(g: np.random.Generator, families=None, scale=None) -> dict:
    fams = families or FAMILIES
    return {
        "family": str(g.choice(fams)),
        "seed": int(g.integers(0, 2**31 - 1)),
        "scale": float(scale if scale is not None else 10 ** g.uniform(-1, 0.7)),
    }


def monthly_stats(loads):
    """Independent monthly reduction of an 8760 W list: kWh totals, kW peaks, peak days (0-based), per direction."""
    out = []
    for m in range(12):
        seg = loads[MONTH_START[m] : MONTH_START[m + 1]]
        rej = [(-x) / 1000.0 if x < 0.0 else 0.0 for x in seg]
        ext = [x / 1000.0 if x >= 0.0 else 0.0 for x in seg]
        out.append(
            {
                "hours": len(seg),
                "rej_total": math.fsum(rej),
                "ext_total": math.fsum(ext),
                "rej_peak": max(rej),
                "ext_peak": max(ext),
                "rej_peak_days": sorted({i // 24 for i, v in enumerate(rej) if v == max(rej)}),
                "ext_peak_days": sorted({i // 24 for i, v in enumerate(ext) if v == max(ext)}),
                "net_kwh": math.fsum(rej) - math.fsum(ext),
            }
        )
    return out
