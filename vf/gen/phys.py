"""Seeded physical configurations in the tool's own input-file vocabulary, and builders that go through the public API."""
from __future__ import annotations

import math

import numpy as np

FLUIDS = ["WATER", "ETHYLALCOHOL", "ETHYLENEGLYCOL", "METHYLALCOHOL", "PROPYLENEGLYCOL"]
PIPES = ["SINGLEUTUBE", "DOUBLEUTUBEPARALLEL", "DOUBLEUTUBESERIES", "COAXIAL"]


def draw_fluid(g):
    name = str(g.choice(FLUIDS, p=[0.4, 0.15, 0.15, 0.15, 0.15]))
    pct = 0.0 if name == "WATER" else float(round(g.uniform(5, 40), 1))
    return {"fluid_name": name, "concentration_percent": pct, "temperature": 20.0}


def draw_soil(g):
    return {
        "conductivity": float(round(g.uniform(0.8, 4.5), 3)),
        "rho_cp": float(round(g.uniform(1.3e6, 3.8e6), 0)),
        "undisturbed_temp": float(round(g.uniform(8, 22), 2)),
    }


def draw_grout(g):
    return {"conductivity": float(round(g.uniform(0.6, 2.8), 3)), "rho_cp": float(round(g.uniform(2.0e6, 4.2e6), 0))}


def draw_pipe(g, arrangement, r_b):
    """Pipe geometry that fits in a borehole of radius r_b (checked with margins)."""
    rough = float(g.choice([1e-6, 1.5e-6, 1e-5]))
    rho_cp = float(round(g.uniform(1.2e6, 2.2e6), 0))
    if arrangement == "COAXIAL":
        r_oo = r_b * g.uniform(0.55, 0.85)
        t_o = g.uniform(0.003, 0.007)
        r_oi = r_oo - t_o
        r_io = r_oi * g.uniform(0.42, 0.62)
        t_i = g.uniform(0.0025, 0.004)
        r_ii = r_io - t_i
        return {
            "inner_pipe_d_in": float(round(2 * r_ii, 5)),
            "inner_pipe_d_out": float(round(2 * r_io, 5)),
            "outer_pipe_d_in": float(round(2 * r_oi, 5)),
            "outer_pipe_d_out": float(round(2 * r_oo, 5)),
            "roughness": rough,
            "conductivity_inner": float(round(g.uniform(0.2, 0.6), 3)),
            "conductivity_outer": float(round(g.uniform(0.3, 0.6), 3)),
            "rho_cp": rho_cp,
            "arrangement": "COAXIAL",
        }
    if arrangement == "SINGLEUTUBE":
        r_out = min(g.uniform(0.012, 0.022), 0.38 * r_b)
        t = g.uniform(0.0022, 0.0040)
        r_in = r_out - t
        s_max = 2 * (r_b - 2 * r_out) - 0.004
        s = g.uniform(0.15 * s_max, 0.95 * s_max)
    else:
        r_out = min(g.uniform(0.010, 0.018), 0.27 * r_b)
        t = g.uniform(0.0020, 0.0032)
        r_in = r_out - t
        # four legs on a circle of radius s/2 + r_out: neighbours must not touch, outer edge inside the borehole
        s_min = 2 * (math.sqrt(2) - 1) * r_out + 0.003
        s_max = 2 * (r_b - 2 * r_out) - 0.004
        if s_max <= s_min:
            s_max = s_min + 0.001
        s = g.uniform(s_min, s_max)
    return {
        "inner_diameter": float(round(2 * r_in, 5)),
        "outer_diameter": float(round(2 * r_out, 5)),
        "shank_spacing": float(round(s, 5)),
        "roughness": rough,
        "conductivity": float(round(g.uniform(0.3, 0.6), 3)),
        "rho_cp": rho_cp,
        "arrangement": arrangement,
    }


def draw_phys(g: np.random.Generator, arrangement=None):
    arrangement = arrangement or str(g.choice(PIPES))
    dia = float(round(g.uniform(0.11, 0.20), 4))
    if arrangement in ("DOUBLEUTUBEPARALLEL", "DOUBLEUTUBESERIES"):
        dia = float(round(g.uniform(0.14, 0.22), 4))
    return {
        "fluid": draw_fluid(g),
        "grout": draw_grout(g),
        "soil": draw_soil(g),
        "pipe": draw_pipe(g, arrangement, dia / 2),
        "borehole": {"buried_depth": float(round(g.uniform(0.5, 4.0), 2)), "diameter": dia},
    }


def draw_flow(g, arrangement):
    """Per-borehole design flow in L/s, laminar to turbulent."""
    return float(round(10 ** g.uniform(math.log10(0.03), math.log10(1.5)), 4))


# ---------------------------------------------------------------- builders (public API only)
def set_pipe(mgr, pipe: dict):
    a = pipe["arrangement"].upper()
    if a == "COAXIAL":
        mgr.set_coaxial_pipe(
            inner_pipe_d_in=pipe["inner_pipe_d_in"],
            inner_pipe_d_out=pipe["inner_pipe_d_out"],
            outer_pipe_d_in=pipe["outer_pipe_d_in"],
            outer_pipe_d_out=pipe["outer_pipe_d_out"],
            roughness=pipe["roughness"],
            conductivity_inner=pipe["conductivity_inner"],
            conductivity_outer=pipe["conductivity_outer"],
            rho_cp=pipe["rho_cp"],
        )
        return
    kw = dict(
        inner_diameter=pipe["inner_diameter"],
        outer_diameter=pipe["outer_diameter"],
        shank_spacing=pipe["shank_spacing"],
        roughness=pipe["roughness"],
        conductivity=pipe["conductivity"],
        rho_cp=pipe["rho_cp"],
    )
    if a == "SINGLEUTUBE":
        mgr.set_single_u_tube_pipe(**kw)
    elif a == "DOUBLEUTUBEPARALLEL":
        mgr.set_double_u_tube_pipe_parallel(**kw)
    elif a == "DOUBLEUTUBESERIES":
        mgr.set_double_u_tube_pipe_series(**kw)
    else:
        raise ValueError(a)


def manager_media(phys: dict, height: float):
    """A GHEManager with fluid/grout/soil/pipe/borehole set through the public setters."""
    from ghedesigner.manager import GHEManager

    m = GHEManager()
    m.set_fluid(**phys["fluid"])
    m.set_grout(**phys["grout"])
    m.set_soil(**phys["soil"])
    set_pipe(m, phys["pipe"])
    m.set_borehole(height=height, buried_depth=phys["borehole"]["buried_depth"], diameter=phys["borehole"]["diameter"])
    return m


def bhe_objects(phys: dict, height: float):
    """(pipe_type, fluid, borehole, pipe, grout, soil) objects as the manager builds them."""
    m = manager_media(phys, height)
    return m.pipe_type, m._fluid, m._borehole, m._pipe, m._grout, m._soil


def make_bhe(phys: dict, height: float, m_flow_borehole: float):
    from ghedesigner.borehole_heat_exchangers import get_bhe_object

    pt, fluid, bh, pipe, grout, soil = bhe_objects(phys, height)
    return get_bhe_object(pt, m_flow_borehole, fluid, bh, pipe, grout, soil)
