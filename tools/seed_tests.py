#!/usr/bin/env python3
"""Run the repository test files related to each archived seed in its worktree (change applied) and record the result in meta.json.
usage: seed_tests.py ID [ID ...]"""
import json
import os
import subprocess
import sys
import time

VERIF = os.path.dirname(os.path.dirname(os.path.abspath(__file__)))
T = "ghedesigner/tests/"
TESTS = {
    "C01": "test_find_design_bi_rectangle.py test_find_design_near_square.py test_size_limits.py",
    "C02": "test_size_limits.py test_find_design_bi_rectangle.py test_find_design_bi_zoned_rectangle.py",
    "C03": "test_find_design_bi_rectangle.py test_find_design_bi_rectangle_constrained.py test_coordinates.py",
    "C04": "test_find_design_bi_rectangle_constrained.py test_shapes.py",
    "C05": "test_find_design_near_square.py test_size_limits.py test_find_design_rectangle.py",
    "C06": "test_loads.py test_simulate_ghe.py test_find_design_near_square_multiyear.py",
    "C07": "test_loads.py test_simulate_ghe.py test_find_design_near_square_multiyear.py",
    "C08": "test_loads.py test_simulate_ghe.py test_find_design_near_square_multiyear.py",
    "C09": "test_simulate_ghe.py test_compute_live_g_function_sim_and_size.py test_loads.py",
    "C10": "test_radial_numerical_borehole.py test_simulate_ghe.py test_equiv_pipes.py",
    "C11": "test_simulate_ghe.py test_compute_live_g_function_sim_and_size.py test_size_limits.py",
    "C12": "test_size_limits.py test_simulate_ghe.py test_find_design_near_square.py",
    "C13": "test_find_design_near_square.py test_simulate_ghe.py test_find_design_rectangle.py",
    "C14": "test_rowwise.py test_find_design_rowwise.py",
    "C15": "test_equiv_pipes.py test_compute_bh_resistance.py test_find_design_near_square.py",
    "C16": "test_shapes.py test_find_design_bi_rectangle_constrained.py",
    "C17": "test_create_input_files.py",
    "C18": "test_create_input_files.py test_shapes.py",
    "C19": "test_size_limits.py test_find_design_near_square.py",
    "C20": "test_find_design_near_square_2.py test_size_limits.py",
}
for arg in [a for a in sys.argv[1:] if not a.startswith("--")]:
    sid, _, wt = arg.partition("=")
    wt = wt or f"/tmp/wt_{sid}"
    meta_p = os.path.join(VERIF, "seeded", sid, "meta.json")
    meta = json.load(open(meta_p))
    full = "--full" in sys.argv
    files = "ghedesigner/tests" if full else " ".join(T + f for f in TESTS[sid[:3]].split())
    env = dict(os.environ, OMP_NUM_THREADS="1", OPENBLAS_NUM_THREADS="1", PYTHONPATH=wt)
    st = subprocess.run("git status --short ghedesigner", shell=True, cwd=wt, capture_output=True, text=True).stdout.strip()
    t0 = time.time()
    p = subprocess.run(f"/venv/bin/python -m pytest -q -p no:cacheprovider -o addopts= --timeout=1800 -n {10 if full else 4} {files}", shell=True, cwd=wt, capture_output=True, text=True, env=env)
    tail = (p.stdout + p.stderr).strip().splitlines()[-1:]
    meta["repo_tests_run_by_me"] = {"worktree_state": st, "files": ["ghedesigner/tests (whole suite)"] if full else TESTS[sid[:3]].split(), "exit": p.returncode, "summary": tail, "wall_s": round(time.time() - t0)}
    if "repo tests" not in " ".join(meta.get("ran", [])):
        meta.setdefault("ran", []).append(f"repo tests in the worktree with the change: pytest {'-n 10 ghedesigner/tests (whole suite, 61 tests)' if full else '-n 4 ' + TESTS[sid[:3]]}")
    json.dump(meta, open(meta_p, "w"), indent=1)
    print(sid, p.returncode, tail, flush=True)
