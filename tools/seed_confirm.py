#!/usr/bin/env python3
"""Confirm and archive one sub-agent breakage:  seed_confirm.py <ID> <worktree> <PROP[,PROP..]> [--tests "file1 file2"] [--tier quick]

1. copies <worktree>/_seed/{patch.diff,demo.py,notes.md} to /verif/seeded/<ID>/
2. runs the demo in the worktree with the change (must fail) and with the change stashed (must pass)
3. optionally runs the named repository test files in the worktree with the change (must pass)
4. applies the patch to /repo, runs ./check <PROP> <tier> for each named property, and ALWAYS restores /repo (git checkout -- .)
5. writes /verif/seeded/<ID>/meta.json with everything that was run and observed."""
import json
import os
import shutil
import subprocess
import sys
import time

VERIF = os.path.dirname(os.path.dirname(os.path.abspath(__file__)))
ENV = dict(os.environ, OMP_NUM_THREADS="1", OPENBLAS_NUM_THREADS="1")


def sh(cmd, cwd=None, timeout=7200, env=None):
    p = subprocess.run(cmd, shell=True, cwd=cwd, capture_output=True, text=True, timeout=timeout, env=env or ENV)
    return p.returncode, (p.stdout + p.stderr)


def main():
    sid, wt, props = sys.argv[1], sys.argv[2], sys.argv[3].split(",")
    tests = ""
    tier = "quick"
    if "--tests" in sys.argv:
        tests = sys.argv[sys.argv.index("--tests") + 1]
    if "--tier" in sys.argv:
        tier = sys.argv[sys.argv.index("--tier") + 1]
    needs = sys.argv[sys.argv.index("--needs") + 1] if "--needs" in sys.argv else ""
    dst = os.path.join(VERIF, "seeded", sid)
    os.makedirs(dst, exist_ok=True)
    for f in ("patch.diff", "demo.py", "notes.md"):
        src = os.path.join(wt, "_seed", f)
        if os.path.exists(src):
            shutil.copy(src, os.path.join(dst, f))
    meta = {"id": sid, "breaks": props, "worktree": wt, "needs_to_manifest": needs, "confirmed_at": time.strftime("%Y-%m-%d %H:%M:%S"), "ran": []}
    pyenv = dict(ENV, PYTHONPATH=wt)
    # demo with / without
    rc1, out1 = sh("/venv/bin/python _seed/demo.py", cwd=wt, env=pyenv, timeout=3600)
    # (no git stash: the stash stack is shared by all worktrees of a repository)
    sh(f"git diff -- ghedesigner > {dst}/.current.diff", cwd=wt)
    sh("git checkout -- ghedesigner", cwd=wt)
    try:
        rc0, out0 = sh("/venv/bin/python _seed/demo.py", cwd=wt, env=pyenv, timeout=3600)
    finally:
        sh(f"git apply {dst}/.current.diff", cwd=wt)
        os.remove(f"{dst}/.current.diff")
    meta["demo_with_change_exit"] = rc1
    meta["demo_without_change_exit"] = rc0
    meta["demo_with_change_tail"] = out1[-600:]
    meta["ran"].append("demo.py in the worktree with the change and with the change stashed")
    # repository tests with the change
    if tests:
        rc, out = sh(f"/venv/bin/python -m pytest -q -p no:cacheprovider -o addopts= -n 4 {tests}", cwd=wt, env=pyenv, timeout=10800)
        meta["repo_tests"] = {"files": tests.split(), "exit": rc, "tail": out[-300:]}
        meta["ran"].append(f"pytest -n 4 {tests} in the worktree with the change")
    meta["checks"] = {}
    if "--via-worktree" in sys.argv:
        # run the checks against the worktree that has the change applied (VF_REPO), leaving /repo untouched - used while a long
        # background run is reading /repo; equivalent to `git -C /repo apply` because the checks import ghedesigner from VF_REPO
        for p in props:
            t0 = time.time()
            rc, out = sh(f"./check {p} {tier}", cwd=VERIF, env=dict(os.environ, VF_REPO=wt))
            lines = [ln for ln in out.splitlines() if ln.startswith("VIOLATION") or ln.startswith("  mechanism")]
            meta["checks"][p] = {"tier": tier, "exit": rc, "caught": rc == 1, "wall_s": round(time.time() - t0, 1), "first_violations": [ln[:300] for ln in lines[:4]]}
        meta["ran"].append(f"VF_REPO={wt} ./check {{{','.join(props)}}} {tier}  (worktree with the change applied; /repo untouched)")
        json.dump(meta, open(os.path.join(dst, "meta.json"), "w"), indent=1)
        print(json.dumps({k: meta[k] for k in ("id", "demo_with_change_exit", "demo_without_change_exit", "checks") if k in meta}, indent=1)[:1500])
        return
    # my checks against the change, applied to /repo and always reverted
    st, _ = sh("git -C /repo status --short")
    rc, out = sh(f"git -C /repo apply --check {dst}/patch.diff")
    if rc != 0:
        meta["apply_error"] = out[-300:]
    else:
        try:
            sh(f"git -C /repo apply {dst}/patch.diff")
            for p in props:
                t0 = time.time()
                rc, out = sh(f"./check {p} {tier}", cwd=VERIF, env=dict(os.environ))
                lines = [ln for ln in out.splitlines() if ln.startswith("VIOLATION") or ln.startswith("  mechanism")]
                meta["checks"][p] = {"tier": tier, "exit": rc, "caught": rc == 1, "wall_s": round(time.time() - t0, 1), "first_violations": [ln[:300] for ln in lines[:4]]}
        finally:
            sh("git -C /repo checkout -- .")
    meta["ran"].append(f"git -C /repo apply patch.diff; ./check {{{','.join(props)}}} {tier}; git -C /repo checkout -- .")
    json.dump(meta, open(os.path.join(dst, "meta.json"), "w"), indent=1)
    print(json.dumps({k: meta[k] for k in ("id", "demo_with_change_exit", "demo_without_change_exit", "checks") if k in meta}, indent=1)[:1500])
    if "repo_tests" in meta:
        print("repo tests:", meta["repo_tests"]["exit"], meta["repo_tests"]["tail"][-150:])


if __name__ == "__main__":
    main()
