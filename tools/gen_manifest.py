#!/usr/bin/env python3
"""Regenerates /verif/MANIFEST.json from the table below (one place to keep it valid)."""
import json
import os

HERE = os.path.dirname(os.path.abspath(__file__))
VERIF = os.path.dirname(HERE)

BASELINE = "cd /repo && /venv/bin/python -m pytest -ra -q -p no:cacheprovider --timeout=900 --continue-on-collection-errors"

CHECKS = {
    "C01": dict(
        technique="offline judge over recorded design-run event logs (scenario engine): in-place re-simulation on a deep copy + independent superposition oracle",
        text="Exploration: full GHEManager.find_design() runs (6 methods x 4 pipes x 2 flow types x 12 load families, magnitudes below/inside/beyond "
        "capacity, horizons 12-360 months) execute under search/flow/simulation taps; every design returned without the continue escape is "
        "re-simulated in place and its excess recomputed by the harness (<= 1e-3 K), cross-checked by the O(n^2) superposition oracle.",
        note="pygfunction's g-functions and Rb* are trusted inputs; a run whose sub-search printed an escape message with the flag on is not judged",
        ref="DESIGN.md section 2 C01",
    ),
    "C02": dict(
        technique="outcome/exception classifier over recorded search logs; policy table from observed excesses; independent re-evaluation of error runs",
        text="Exploration: the scenario pool drives loads from far below to far beyond capacity, caps and continue flag both ways; each run's "
        "height window, cap, exception type and the unmet-design policy (from the first three evaluations of every search() call) are judged; "
        "error runs of the 1-D searches are re-evaluated with the harness's own GHE/simulation. Nested-search tail defects are listed known findings.",
        note="non-degenerate inputs by construction; 'largest allowed' accepts < cap or <= cap",
        ref="DESIGN.md section 2 C02",
    ),
    "C04": dict(
        technique="wrapper on remove_cutout recording every cut of polygonal_land_constraint; exact/vectorised crossing-number oracle with the documented edge rule",
        text="Exploration: generated property outlines (convex, star-shaped, orthogonal; 1-3 outlines, 0-3 no-go polygons, grid lines coinciding "
        "with edges) and the repository's test polygons; every recorded cut and every field of the design's nested domain is judged for "
        "containment, no-go exclusion, no clearly-inside borehole dropped, stable count ordering.",
        note="points whose distance-sum excess lies in [0.005, 0.02] are not judged; vectorised classifier cross-checked against the exact one each run",
        ref="DESIGN.md section 2 C04",
    ),
    "C05": dict(
        technique="real search methods executed on scripted excess tables (exhaustive small scope) + tracker relations on recorded real design runs",
        text="Exploration with an exhaustive sub-scope: the real Bisection1D.search runs on every list length x threshold x cap x flag and all sign "
        "patterns (n <= 9/11); real Bisection2D/BisectionZD flows on random monotone nested tables; on every real design run the root condition "
        "(|excess(H)| <= 1e-3 K), bound sign, drilling clause, predecessor clause and evaluation budget are judged.",
        note="scripted tables use distinct magnitudes; predecessor clause only where the observed excess is monotone",
        ref="DESIGN.md section 2 C05",
    ),
    "C12": dict(
        technique="offline judge over recorded summaries vs deep-copied in-place re-simulation; tracker row algebra",
        text="Exploration: for every design run of the scenario pool (escapes included) the summary's borehole count, rows, drilling, reported "
        "max/min EFT (vs re-simulation at the reported height, 1e-3 K) and every search-log row are checked; evidence lists the outcome classes.",
        note="re-simulation on a deep copy made after the summary was built",
        ref="DESIGN.md section 2 C12",
    ),
    "C13": dict(
        technique="bitwise digests over API histories and object operation sequences, second process with another hash seed",
        text="Exploration: small scenarios of every method are run fresh and through six call histories; real GHE objects are driven by random "
        "simulate/size sequences and compared bit for bit with a fresh object.",
        note="bit equality of coordinates, height, temperatures",
        ref="DESIGN.md section 2 C13",
    ),
    "C14": dict(
        technique="sys.monitoring LINE-event step budget on the rowwise loops; wrapper on gen_borehole_config; geometric oracles",
        text="Exploration: the real field_optimization_fr / _wp_space_fr run on generated convex lots and rectangles under a logical step budget "
        "(termination), with containment, no-go exclusion, nearest-neighbour spacing, exact-rational rectangle lattice, best-rotation and "
        "translation checks.",
        note="degenerate sliver lots are counted, not judged; ties in floor decisions are avoided by construction",
        ref="DESIGN.md section 2 C14",
    ),
    "C17": dict(
        technique="write -> independent jsonschema validation -> CLI loader under an instance-capturing wrapper -> write -> byte comparison; design digests",
        text="Exploration: configurations of all six methods x four pipes x five fluids x optional keys are written by the tool, validated by the "
        "harness section by section and by the tool, loaded through _run_manager_from_cli_worker, written again and compared byte for byte; a "
        "sample of designs is run both ways.",
        note="jsonschema against the repository's schema files; five documented names upper-cased",
        ref="DESIGN.md section 2 C17",
    ),
    "C18": dict(
        technique="real CLI subprocesses; expected exit status from independent per-section schema validation and output-file inventory",
        text="Exploration (thorough: exhaustive over the corruption catalogue): every single-field corruption and letter-case variant of 12 small "
        "demo-style inputs x {--validate-only, plain, no output directory}, full valid runs, --convert IDF/XYZ.",
        note="expected verdict from the harness's own jsonschema validation including loads.schema.json",
        ref="DESIGN.md section 2 C18",
    ),
    "C19": dict(
        technique="recording icontract post-conditions on the calendar helpers (exhaustive scopes); table checks on every recorded design run",
        text="Exploration with exhaustive sub-scopes: all 8760 hour labels vs datetime; hours_to_month over 30 years at 0.25 h vs closed form, "
        "monotone, continuous, integer month ends; Loadings/BoreFieldData/Gfunction rows of every design run of the pool vs inputs, selected "
        "coordinates and the simulated curve.",
        note="non-leap calendar",
        ref="DESIGN.md section 2 C19",
    ),
    "C20": dict(
        technique="wrappers on retrieve_flow (both search classes) and BaseGHE.__init__; paired BOREHOLE/SYSTEM evaluations; flow events of recorded design runs",
        text="Exploration: direct retrieve_flow calls with N in 1..400 on real search instances, paired calculate_excess with v per borehole vs "
        "N v system (mass flow, Rb*, all temperatures equal to 1e-10), SYSTEM evaluations along candidate lists, plus the flow events of every "
        "design run of the scenario pool.",
        note="N v / N compared at 1e-10 relative; fluid density from pygfunction",
        ref="DESIGN.md section 2 C20",
    ),
    "C03": dict(
        technique="runtime geometry assertions on every candidate field obtained through the public API (generated hostile lots)",
        text="Exploration: every field of every candidate list of the near-square, rectangle, bi-rectangle and bi-zoned designs is "
        "checked (box containment, duplicates, KD-tree nearest-neighbour >= b_min, exact near-square grids, list ordering) for thousands "
        "of generated lots including length<width, exact-divisor and integer-ratio windows. Held on the lots observed, not a proof.",
        note="numpy/scipy KD-tree trusted; degenerate spacing windows (no integer count, < 3 rows at max spacing) are not generated",
        ref="DESIGN.md section 2 C03",
    ),
    "C06": dict(
        technique="monitor on the real HybridLoad constructor output; offline month-wise energy integral vs raw hourly loads",
        text="Exploration: the real HybridLoad (real equivalent U-tube and radial short-time model) is built for generated 8760-h profiles "
        "and horizons 1..360 months; each month's integral between month-end breakpoints is compared with the raw loads at 1e-11 relative.",
        note="non-leap calendar as the API always uses; independent monthly reduction of the raw list is the oracle",
        ref="DESIGN.md section 2 C06",
    ),
    "C07": dict(
        technique="monitor on HybridLoad sequences + independent Cullin-Spitler recomputation (own superposition and interpolation)",
        text="Exploration: per retention month the pulses (value, count, length, placement, absence) are checked against an independent "
        "monthly reduction of the raw loads and the reported durations against the harness's own two-day superposition, for generated "
        "profiles x boreholes (all four pipe types, H 20-400 m, laminar to turbulent).",
        note="shares the published definition (Cullin & Spitler 2011) with the code; pygfunction's Rb* and the tool's 30-point short-time curve are inputs",
        ref="DESIGN.md section 2 C07",
    ),
    "C08": dict(
        technique="monitor on the hybrid time axis: calendar breakpoints, replication, conditional strict monotonicity",
        text="Exploration: breakpoints of the real HybridLoad for generated profiles and all horizon residues mod 12 are compared with the "
        "non-leap calendar; strict monotonicity is asserted whenever the reported windows do not overlap.",
        note="overlap precondition is computed from the reported peak days/durations only",
        ref="DESIGN.md section 2 C08",
    ),
    "C09": dict(
        technique="wrapper on BaseGHE._simulate_detailed recording every call; independent O(n^2) superposition oracle; metamorphic relations",
        text="Exploration: real GHE objects (all pipe types, 1..400 boreholes) are driven by random load sequences/time axes/monotone g tables, "
        "by simulate(HYBRID) on generated profiles and by simulate(HOURLY) for 12/24 months; every returned temperature is compared with the "
        "harness's own evaluation of the documented formula (1e-9 of the span) plus zero-load, scaling, sign and shift relations.",
        note="Rb* from pygfunction and the g table the tool passed to the routine are inputs; own t_s, k, H, N, m_dot, c_p reading",
        ref="DESIGN.md section 2 C09",
    ),
    "C10": dict(
        technique="taps on fill_radial_cells and on the tridiagonal solver (per-step online heat balance); independent finer-mesh solver",
        text="Exploration: the real radial model runs for generated boreholes (all pipe types through to_single(), H 20-400 m incl. extremes) while "
        "the cell table and every implicit step are observed: tiling, fluid thermal mass, layer resistances, per-step and total heat balance, "
        "monotone/finite response, and agreement with an independent solver (3x mesh, dt 30 s) within 0.5 %. The far-field leak for H > ~325 m "
        "is a listed known finding.",
        note="pygfunction resistances are inputs to both solvers; the reference shares the layered-problem definition, not the code",
        ref="DESIGN.md section 2 C10",
    ),
    "C11": dict(
        technique="wrapper on combine_sts_lts; post-conditions on interpolation and radius correction; UHTR g-function vs own finite-line-source integral",
        text="Exploration: every combine_sts_lts call (direct feeds and grab_g_function of real GHEs with the short-time end on both sides of -8.5) "
        "is judged for ordering/truncation/reproduction; interpolation at stored heights for families of 1..5 curves; radius-correction "
        "identities; UHTR curves of single, grid, L, U, rectangular and irregular fields against a Gauss-Legendre FLS oracle (self-checked "
        "against adaptive quadrature each run). Irregular-field deviation of pygfunction's 'equivalent' solver is a listed known finding.",
        note="pygfunction trusted only through this comparison; tolerances read relative to max(1,|g|)",
        ref="DESIGN.md section 2 C11",
    ),
    "C15": dict(
        technique="post-conversion assertions on the object returned by the real to_single(); independent geometric areas and resistance recomputation",
        text="Exploration: double-U (series/parallel), coaxial and single-U exchangers with generated geometry/fluids/flows (laminar to turbulent) "
        "are converted by the real code; fluid and pipe-wall areas, recomputed R_fp vs the method's target, Rb* of both exchangers and "
        "non-mutation of the original are asserted. Two clamp mechanisms are listed known findings.",
        note="resistance target recomputed from the input dimensions with the formulas the method documents; Rb* from pygfunction",
        ref="DESIGN.md section 2 C15",
    ),
    "C16": dict(
        technique="icontract post-condition on the real point_polygon_check; exact rational crossing-number oracle; exhaustive small scope + random",
        text="Exploration with an exhaustive sub-scope: all simple 3..5-gons (quick) / 3..6-gons (thorough) on the 4x4 lattice x 81 "
        "half-integer points, plus random real-valued convex/star/orthogonal polygons with points level with vertices, collinear with "
        "edges and at controlled distances around the edge tolerance.",
        note="oracle in exact integer/rational arithmetic and 50-digit decimals; points whose distance-sum excess is within [0.5,2] x tolerance are not judged",
        ref="DESIGN.md section 2 C16",
    ),
}

NOT_YET = {}

TITLES = {}
for line in open(os.path.join(VERIF, "properties.jsonl")):
    d = json.loads(line)
    TITLES[d["id"]] = d["title"]


def main():
    checks = []
    for pid in sorted(CHECKS):
        c = CHECKS[pid]
        checks.append(
            {
                "property_id": pid,
                "quick_cmd": f"./check {pid} quick",
                "thorough_cmd": f"./check {pid} thorough",
                "evidence_file": f"evidence/{pid}.json",
                "replay_cmd_template": f"./check {pid} --replay {{path}}",
                "engine": "vf",
                "level_claimed": {"category": c.get("category", "exploration"), "text": c["text"], "design_ref": c["ref"]},
                "level_note": c["note"],
                "technique": c["technique"],
            }
        )
    na = []
    for pid in sorted(TITLES):
        if pid not in CHECKS:
            na.append({"property_id": pid, "reason": NOT_YET.get(pid, "check not built yet in this session (planned, see DESIGN.md build order); not a limit of the technique")})
    man = {
        "version": 1,
        "setup_cmd": "./setup.sh",
        "hooks": {
            "guard": "GHEDESIGNER_VERIF",
            "enable": "No source hooks: ./check exports GHEDESIGNER_VERIF=1 and PYTHONPATH=/repo:/verif:/verif/.deps and the harness wraps the "
            "repository's functions from outside (icontract contracts, attribute wrappers, sys.monitoring step budgets).",
            "baseline_off_cmd": BASELINE,
            "source_commits": [],
            "add_only": True,
        },
        "engines": [
            {
                "name": "vf",
                "path": "vf/",
                "serves_properties": sorted(CHECKS),
                "kind_free_text": "runtime monitors on the real code (contracts, wrappers, recorded event logs judged offline, step budgets) "
                "driven by seeded hostile generators and exhaustive small scopes; 16-way subprocess pool",
            }
        ],
        "checks": checks,
        "not_applicable": na,
        "notes": "All checks: ./check <ID> <quick|thorough>; exit 0 held / 1 VIOLATION / 2 INCONCLUSIVE (never on the unchanged tree). "
        "Genuine defects repaired in /repo are listed in known_findings.json (status fixed); unrepaired ones (status finding) print KNOWN-FINDING.",
    }
    with open(os.path.join(VERIF, "MANIFEST.json"), "w") as f:
        json.dump(man, f, indent=1)
    import jsonschema

    jsonschema.validate(man, json.load(open("/root/.vp/MANIFEST.schema.json")))
    print("MANIFEST.json written:", len(checks), "checks,", len(na), "not claimed")


if __name__ == "__main__":
    main()
