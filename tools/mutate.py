#!/usr/bin/env python3
"""Apply one textual mutation to /repo, run a check, revert.  usage: mutate.py <PROP> <file> <old> <new> [occurrence] [tier]
Or: mutate.py --suite [PROP ...]   runs every entry of tools/mutations.json (optionally only for the given properties).
Never leaves /repo modified: the file is restored from git afterwards."""
import json
import os
import subprocess
import sys
import time

REPO = "/repo"
HERE = os.path.dirname(os.path.abspath(__file__))
VERIF = os.path.dirname(HERE)


def run_one(prop, file, old, new, occ=0, tier="quick", extra_env=None):
    path = os.path.join(REPO, file)
    src = open(path).read()
    n = src.count(old)
    if n == 0:
        return {"status": "mutation-did-not-apply", "exit": None}
    idx = -1
    for _ in range(occ + 1):
        idx = src.find(old, idx + 1)
    mutated = src[:idx] + new + src[idx + len(old):]
    t0 = time.time()
    try:
        open(path, "w").write(mutated)
        env = dict(os.environ)
        env.update(extra_env or {})
        p = subprocess.run([os.path.join(VERIF, "check"), prop, tier], capture_output=True, text=True, env=env)
    finally:
        subprocess.run(["git", "-C", REPO, "checkout", "--", file], check=True)
    viol = [l for l in p.stdout.splitlines() if l.startswith("VIOLATION") or l.startswith("  mechanism")]
    return {"exit": p.returncode, "violations": viol[:6], "wall": round(time.time() - t0, 1), "tail": p.stdout.splitlines()[-1:] }


def main():
    if sys.argv[1] == "--suite":
        only = set(sys.argv[2:])
        muts = json.load(open(os.path.join(HERE, "mutations.json")))
        out = []
        for m in muts:
            if only and m["prop"] not in only:
                continue
            r = run_one(m["prop"], m["file"], m["old"], m["new"], m.get("occ", 0), m.get("tier", "quick"))
            caught = r["exit"] == 1
            print(f"{m['prop']} {m['name']}: {'CAUGHT' if caught else 'MISSED exit=' + str(r['exit'])} ({r.get('wall')}s) {r.get('violations', [])[:2]}", flush=True)
            out.append({**m, **r, "caught": caught})
        json.dump(out, open(os.path.join(VERIF, ".cache", "mutation_results.json"), "w"), indent=1)
        return
    prop, file, old, new = sys.argv[1:5]
    occ = int(sys.argv[5]) if len(sys.argv) > 5 else 0
    tier = sys.argv[6] if len(sys.argv) > 6 else "quick"
    r = run_one(prop, file, old, new, occ, tier)
    print(json.dumps(r, indent=1))


if __name__ == "__main__":
    main()
